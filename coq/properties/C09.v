(* C09 — URL normalisation is canonical: sanity examples of the executable model (RIO.Pct, RIO.Url),
   evaluated by the kernel.  The general statements come later; nothing here is a theorem of the property. *)
Require Import RIO.Base RIO.Pct RIO.Url RIO.C09Run.
Open Scope N_scope.

(* default utm set *)
Definition utm : list str :=
  [ [117;116;109;95;115;111;117;114;99;101]; [117;116;109;95;109;101;100;105;117;109];
    [117;116;109;95;99;97;109;112;97;105;103;110]; [117;116;109;95;116;101;114;109];
    [117;116;109;95;99;111;110;116;101;110;116] ].
Definition cfg_plain : config := mk_cfg false false false false false false utm.
Definition cfg_fold : config := mk_cfg false false true true true false utm.

(* "/a b"  and  "z=1&a=é" *)
Definition p_ab : str := [47;97;32;98].
Definition q_za : str := [122;61;49;38;97;61;195;169].
Definition u_ab : str := p_ab ++ [63] ++ q_za.

(* "/a%20b?a=%C3%A9&z=1" *)
Example rule_string_plain :
  rule_path_and_query cfg_plain p_ab (Some q_za)
  = [47;97;37;50;48;98;63;97;61;37;67;51;37;65;57;38;122;61;49].
Proof. vm_compute; reflexivity. Qed.

Example request_string_plain : request_matching_string cfg_plain u_ab = rule_path_and_query cfg_plain p_ab (Some q_za).
Proof. vm_compute; reflexivity. Qed.

(* "/a%20b?a=%c3%a9&z=1": lowercasing reaches the hex digits of the escapes *)
Example rule_string_fold :
  rule_path_and_query cfg_fold p_ab (Some q_za)
  = [47;97;37;50;48;98;63;97;61;37;99;51;37;97;57;38;122;61;49].
Proof. vm_compute; reflexivity. Qed.

Example request_string_fold : request_matching_string cfg_fold u_ab = rule_path_and_query cfg_fold p_ab (Some q_za).
Proof. vm_compute; reflexivity. Qed.

(* "/A%20B?utm_source=x&Z=1&A=%c3%a9" under cfg_fold: same matching string, "utm_source=x" is skipped and forwarded *)
Definition u_ab_mk : str :=
  [47;65;37;50;48;66;63;117;116;109;95;115;111;117;114;99;101;61;120;38;90;61;49;38;65;61;37;99;51;37;97;57].
Example request_string_fold_marketing :
  request_matching_string cfg_fold u_ab_mk = rule_path_and_query cfg_fold p_ab (Some q_za)
  /\ pq_skipped_query_params (from_config cfg_fold u_ab_mk) = Some [117;116;109;95;115;111;117;114;99;101;61;120].
Proof. split; vm_compute; reflexivity. Qed.

(* the same URL is a different URL when marketing parameters are not ignored *)
Example request_string_plain_marketing :
  str_eqb (request_matching_string cfg_plain u_ab_mk) (rule_path_and_query cfg_plain p_ab (Some q_za)) = false.
Proof. vm_compute; reflexivity. Qed.

(* '+' : the request-side set encodes it at once, the rule side in its second pass; "k=a%2Bb" decodes to a+b *)
Example plus_two_passes :
  rule_path_and_query cfg_plain [47] (Some [107;61;97;37;50;66;98]) = [47;63;107;61;97;37;50;66;98]
  /\ request_matching_string cfg_plain [47;63;107;61;97;37;50;66;98] = [47;63;107;61;97;37;50;66;98].
Proof. split; vm_compute; reflexivity. Qed.

(* http's path parser: a back-tick is rejected in the path and accepted in the query; '#' cuts; empty path is "/" *)
Example http_parse_examples :
  http_path_and_query_parse [47;96] = None
  /\ http_path_and_query_parse [47;97;63;96] = Some ([47;97], Some [96])
  /\ http_path_and_query_parse [63;120;35;121] = Some ([47], Some [120])
  /\ http_path_and_query_parse [97] = None
  /\ http_path_and_query_parse [] = None.
Proof. repeat split; vm_compute; reflexivity. Qed.

(* Location: '?' or '&' *)
Example target_examples :
  target_with_skipped [47;116] (Some [97;61;49]) = [47;116;63;97;61;49]
  /\ target_with_skipped [47;116;63;120] (Some [97;61;49]) = [47;116;63;120;38;97;61;49]
  /\ target_with_skipped [47;116] None = [47;116].
Proof. repeat split; vm_compute; reflexivity. Qed.
