(* C04 — body filters never lose, duplicate or reorder response bytes.
   Statements only; proofs in RIO.BodyPass / RIO.ChainProofs / RIO.CodecChain.
   Proved for ALL bodies (any bytes) and ALL chunkings, on the model of FilterBodyAction (RIO.BodyText, RIO.HtmlFilter):
     - no filter applies / cannot be built (empty list, unknown action, empty element_tree, non-HTML content type):
       the output is the input byte for byte (C04_nothing_applies);
     - a stage fails: the failing chunk and all later chunks pass through (C04_error_passthrough), and the HTML stage
       first releases every byte it was holding back (C04_html_error_releases), then is the identity (C04_html_in_error);
     - insert-only text filters: output = prepended values ++ input ++ appended values, for every chunking incl. empty
       chunks and no chunk at all (C04_text_insert_only).
     - the content clause for the HTML stage (append_child / prepend_child / replace, with or without css selector,
       whatever the selector engine answers), for EVERY state reachable from the initial state, EVERY chunk (any bytes:
       malformed, truncated, not UTF-8), whether or not the call takes the error path, and for every chunking of a
       whole run including the end-of-stream call: insert-only visitors: the output is the input with only insertions
       of the whole value ([ins_of]: C04_html_insert_only_call, C04_html_insert_only); replace: the output is the
       input where disjoint '<' ... '>' segments were each replaced by the value ([repl_of]: C04_html_replace_call,
       C04_html_replace); [reach F] is the invariant of the stage, true of hfb_new and preserved by hfb_filter
       (C04_html_reach_init, C04_html_reach_step); at end of stream exactly what is held is released (C04_html_end);
     - whole filter lists, text and HTML filters in any order, through FilterBodyAction's chain: one pass per filter
       in list order, each constrained as above (C04_filter_list, C04_filter_rel_def).
   A replaced span is a '<' ... '>' segment (from the tag that enters the last element of the path to the FIRST end tag of
   that name): it is NOT always a balanced element (C04_replace_span_not_balanced: nested same-name elements), which is
   what the property's quantifier states ("a set of '<...>'-delimited spans").
   Proofs: RIO.HtmlConserve, RIO.HtmlConserveChain (with RIO.HtmlEdit, RIO.HtmlTagShape). *)
Require Import RIO.Base RIO.TokMonad RIO.HtmlTok RIO.BodyText RIO.HtmlFilter RIO.ChainProofs RIO.BodyProofs RIO.CodecChain RIO.BodyPass.
Require Import RIO.TokLogic RIO.HtmlTokProofs RIO.TokShift RIO.HtmlSplit.
Require Import RIO.HtmlEdit RIO.HtmlTagShape RIO.HtmlConserve RIO.HtmlConserveChain RIO.HtmlConserveEx.
Close Scope N_scope.

Theorem C04_nothing_applies : forall lower sel ctok fs chunks,
  (forall f, In f fs -> unbuildable ctok f) ->
  body_run lower sel ctok fs chunks = concat chunks.
Proof. intros. apply no_stage_passthrough'. apply unbuildable_no_stage. assumption. Qed.

Theorem C04_error_passthrough : forall stage s_filter s_end (f : fba stage) c cs,
  fb_in_error f = false -> chain_filter stage s_filter (fb_chain f) c = None ->
  fba_run stage s_filter s_end f (c :: cs) = concat (c :: cs).
Proof. exact fba_error_at. Qed.

Theorem C04_html_error_releases : forall lower sel F input,
  f_in_error F = false -> do_filter lower sel F input = RErr ->
  snd (hfb_filter lower sel F input) = held F ++ input
  /\ held (fst (hfb_filter lower sel F input)) = []
  /\ f_in_error (fst (hfb_filter lower sel F input)) = true.
Proof. exact hfb_error_releases. Qed.

Theorem C04_html_in_error : forall lower sel F input, f_in_error F = true -> hfb_filter lower sel F input = (F, input).
Proof. exact hfb_in_error_identity. Qed.

Theorem C04_text_insert_only : forall lower sel ctok fs chunks,
  (forall f, In f fs -> insert_only_text f) ->
  body_run lower sel ctok fs chunks
  = pre_of (stages_of ctok fs) ++ concat chunks ++ app_of (stages_of ctok fs).
Proof.
  intros lower sel ctok fs chunks Hf. rewrite body_run_total.
  pose proof (insert_only_stages ctok fs Hf) as Hfresh.
  rewrite <- (pre_left_fresh _ Hfresh). apply insert_only_run_all.
  apply Forall_forall. intros st Hst. apply fresh_is_ins. rewrite Forall_forall in Hfresh. apply Hfresh. exact Hst.
Qed.

(* the inserted values, concretely: prepends innermost-last, appends in order *)
Example C04_example : forall lower sel body, body <> [] ->
  body_run lower sel true [BFText TPrepend [1]%N; BFText TAppend [2]%N; BFText TPrepend [3]%N; BFText TAppend [4]%N] [body]
  = [3;1]%N ++ body ++ [2;4]%N.
Proof.
  intros lower sel body Hb. rewrite C04_text_insert_only.
  - cbn. rewrite app_nil_r. reflexivity.
  - intros f [<-|[<-|[<-|[<-|[]]]]]; exact I.
Qed.


(* superseded by the C04_html_* theorems below, kept (proof: RIO.HtmlSplit): an HTML stage whose visitor does not fire in a chunk — no tag token of the
   chunk (held-back bytes included) names the element the visitor waits to enter or to leave — only moves bytes:
   what it returns followed by what it still holds is what it held followed by the chunk, for every state of the
   stage, every chunk (any bytes) and whether or not the call fails.  [tok_facts]: the totality facts about the
   tokenizer (see C03). *)
Theorem C04_html_conservation_partial : forall lower sel, lower_ok lower -> forall F input,
  f_in_error F = false ->
  Forall (quiet_tok (f_enter F) (f_leave F))
         (fst (toks lower (fuel_of (f_last F ++ input)) (f_last F ++ input) (new_fragment lower (f_raw_tag F)))) ->
  snd (hfb_filter lower sel F input) ++ held (fst (hfb_filter lower sel F input)) = held F ++ input.
Proof. intros lower sel LO. exact (hfb_conservation_partial lower sel wf0 (tok_facts_wf0 lower LO)). Qed.

(* ---- the content clause for the HTML stage, all bytes, all reachable states, all chunkings ---- *)
Theorem C04_html_reach_init : forall h v, visitor_new h = Some v -> reach (hfb_new v).
Proof. exact reach_visitor_new. Qed.

Theorem C04_html_reach_step : forall lower sel, lower_ok lower -> forall F input, reach F ->
  reach (fst (hfb_filter lower sel F input))
  /\ v_kind (f_visitor (fst (hfb_filter lower sel F input))) = v_kind (f_visitor F)
  /\ v_content (f_visitor (fst (hfb_filter lower sel F input))) = v_content (f_visitor F).
Proof. exact reach_filter. Qed.

Theorem C04_html_insert_only_call : forall lower sel, lower_ok lower -> forall F input,
  reach F -> v_kind (f_visitor F) <> VReplace ->
  ins_of (v_content (f_visitor F)) (held F ++ input)
         (snd (hfb_filter lower sel F input) ++ held (fst (hfb_filter lower sel F input))).
Proof. exact hfb_insert_only_call. Qed.

Theorem C04_html_replace_call : forall lower sel, lower_ok lower -> forall F input,
  reach F -> v_kind (f_visitor F) = VReplace ->
  repl_of (v_content (f_visitor F)) (held F ++ input)
          (snd (hfb_filter lower sel F input) ++ held (fst (hfb_filter lower sel F input))).
Proof. exact hfb_replace_call. Qed.

Theorem C04_html_end : forall F, hfb_end F = (F, held F).
Proof. exact hfb_end_releases. Qed.

Theorem C04_html_insert_only : forall lower sel, lower_ok lower -> forall h chunks, insert_only_html h ->
  ins_of (hf_value h) (concat chunks) (body_run lower sel true [BFHtml h] chunks).
Proof. exact body_run_html_insert_only. Qed.

Theorem C04_html_replace : forall lower sel, lower_ok lower -> forall h chunks,
  hf_tree h <> [] -> hf_kind h = HReplace ->
  repl_of (hf_value h) (concat chunks) (body_run lower sel true [BFHtml h] chunks).
Proof. exact body_run_html_replace. Qed.

(* whole filter lists (text and HTML filters in any order), FilterBodyAction's chain discipline included: the output is
   obtained from the body by one pass per filter, in list order; a pass of an insert-only filter only inserts its
   value ([ins_of]), a pass of an HTML replace only replaces '<' ... '>' segments by its value ([repl_of]), a filter
   that is not built (non-HTML content type, empty element_tree, unknown action) changes nothing; a text replace
   filter replaces the body as a whole (no constraint).  Any bytes, any chunking, error paths included. *)
Theorem C04_filter_list : forall lower sel, lower_ok lower -> forall ctok fs chunks,
  passes ctok fs (concat chunks) (body_run lower sel ctok fs chunks).
Proof. exact body_run_passes. Qed.

Theorem C04_filter_rel_def : forall ctok f,
  filter_rel ctok f =
  match f with
  | BFText TReplace _ => fun _ _ => True
  | BFText _ c => ins_of c
  | BFHtml h =>
      if ctok && negb (is_nil (hf_tree h)) then
        match hf_kind h with
        | HAppendChild | HPrependChild => ins_of (hf_value h)
        | HReplace => repl_of (hf_value h)
        | HOther => eq
        end
      else eq
  end.
Proof. reflexivity. Qed.


(* a replaced span need not be a balanced element: replace(div) := R on <div><div>x</div>y</div> gives Ry</div>:
   what disappears is "<div><div>x</div>" (outer start tag .. INNER end tag) *)
Theorem C04_replace_span_not_balanced :
  body_run HtmlConserveEx.lw HtmlConserveEx.sel_no true [BFHtml (HtmlConserveEx.mkf HReplace [82]%N [HtmlConserveEx.s_div] None)] [HtmlConserveEx.doc5]
  = [82;121;60;47;100;105;118;62]%N
  /\ HtmlConserveEx.doc5 = [60;100;105;118;62;60;100;105;118;62;120;60;47;100;105;118;62]%N ++ [121;60;47;100;105;118;62]%N.
Proof. exact HtmlConserveEx.replace_span_is_balanced_element_refuted. Qed.

Print Assumptions C04_nothing_applies.
Print Assumptions C04_error_passthrough.
Print Assumptions C04_html_error_releases.
Print Assumptions C04_html_in_error.
Print Assumptions C04_text_insert_only.
Print Assumptions C04_html_conservation_partial.
Print Assumptions C04_filter_list.
Print Assumptions C04_html_reach_init.
Print Assumptions C04_html_reach_step.
Print Assumptions C04_html_insert_only_call.
Print Assumptions C04_html_replace_call.
Print Assumptions C04_html_end.
Print Assumptions C04_html_insert_only.
Print Assumptions C04_html_replace.
Print Assumptions C04_replace_span_not_balanced.
