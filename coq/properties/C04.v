(* C04 — body filters never lose, duplicate or reorder response bytes.
   Statements only; proofs in RIO.BodyPass / RIO.ChainProofs / RIO.CodecChain.
   Proved for ALL bodies (any bytes) and ALL chunkings, on the model of FilterBodyAction (RIO.BodyText, RIO.HtmlFilter):
     - no filter applies / cannot be built (empty list, unknown action, empty element_tree, non-HTML content type):
       the output is the input byte for byte (C04_nothing_applies);
     - a stage fails: the failing chunk and all later chunks pass through (C04_error_passthrough), and the HTML stage
       first releases every byte it was holding back (C04_html_error_releases), then is the identity (C04_html_in_error);
     - insert-only text filters: output = prepended values ++ input ++ appended values, for every chunking incl. empty
       chunks and no chunk at all (C04_text_insert_only).
   PARTIAL: for the HTML append / prepend / replace stages the content clause (output = input plus insertions /
   minus whole element spans) is decided by the correspondence run on damaged documents, not by a theorem. *)
Require Import RIO.Base RIO.TokMonad RIO.HtmlTok RIO.BodyText RIO.HtmlFilter RIO.ChainProofs RIO.BodyProofs RIO.CodecChain RIO.BodyPass.
Require Import RIO.TokLogic RIO.HtmlTokProofs RIO.TokShift RIO.HtmlSplit.
Close Scope N_scope.

Theorem C04_nothing_applies : forall lower sel ctok fs chunks,
  (forall f, In f fs -> unbuildable ctok f) ->
  body_run lower sel ctok fs chunks = concat chunks.
Proof. intros. apply no_stage_passthrough'. apply unbuildable_no_stage. assumption. Qed.

Theorem C04_error_passthrough : forall stage s_filter s_end (f : fba stage) c cs,
  fb_in_error f = false -> chain_filter stage s_filter (fb_chain f) c = None ->
  fba_run stage s_filter s_end f (c :: cs) = concat (c :: cs).
Proof. exact fba_error_at. Qed.

Theorem C04_html_error_releases : forall lower sel F input,
  f_in_error F = false -> do_filter lower sel F input = RErr ->
  snd (hfb_filter lower sel F input) = held F ++ input
  /\ held (fst (hfb_filter lower sel F input)) = []
  /\ f_in_error (fst (hfb_filter lower sel F input)) = true.
Proof. exact hfb_error_releases. Qed.

Theorem C04_html_in_error : forall lower sel F input, f_in_error F = true -> hfb_filter lower sel F input = (F, input).
Proof. exact hfb_in_error_identity. Qed.

Theorem C04_text_insert_only : forall lower sel ctok fs chunks,
  (forall f, In f fs -> insert_only_text f) ->
  body_run lower sel ctok fs chunks
  = pre_of (stages_of ctok fs) ++ concat chunks ++ app_of (stages_of ctok fs).
Proof.
  intros lower sel ctok fs chunks Hf. rewrite body_run_total.
  pose proof (insert_only_stages ctok fs Hf) as Hfresh.
  rewrite <- (pre_left_fresh _ Hfresh). apply insert_only_run_all.
  apply Forall_forall. intros st Hst. apply fresh_is_ins. rewrite Forall_forall in Hfresh. apply Hfresh. exact Hst.
Qed.

(* the inserted values, concretely: prepends innermost-last, appends in order *)
Example C04_example : forall lower sel body, body <> [] ->
  body_run lower sel true [BFText TPrepend [1]%N; BFText TAppend [2]%N; BFText TPrepend [3]%N; BFText TAppend [4]%N] [body]
  = [3;1]%N ++ body ++ [2;4]%N.
Proof.
  intros lower sel body Hb. rewrite C04_text_insert_only.
  - cbn. rewrite app_nil_r. reflexivity.
  - intros f [<-|[<-|[<-|[<-|[]]]]]; exact I.
Qed.


(* PARTIAL (proof: RIO.HtmlSplit): an HTML stage whose visitor does not fire in a chunk — no tag token of the
   chunk (held-back bytes included) names the element the visitor waits to enter or to leave — only moves bytes:
   what it returns followed by what it still holds is what it held followed by the chunk, for every state of the
   stage, every chunk (any bytes) and whether or not the call fails.  [tok_facts]: the totality facts about the
   tokenizer (see C03). *)
Theorem C04_html_conservation_partial : forall lower sel, lower_ok lower -> forall F input,
  f_in_error F = false ->
  Forall (quiet_tok (f_enter F) (f_leave F))
         (fst (toks lower (fuel_of (f_last F ++ input)) (f_last F ++ input) (new_fragment lower (f_raw_tag F)))) ->
  snd (hfb_filter lower sel F input) ++ held (fst (hfb_filter lower sel F input)) = held F ++ input.
Proof. intros lower sel LO. exact (hfb_conservation_partial lower sel wf0 (tok_facts_wf0 lower LO)). Qed.

Print Assumptions C04_nothing_applies.
Print Assumptions C04_error_passthrough.
Print Assumptions C04_html_error_releases.
Print Assumptions C04_html_in_error.
Print Assumptions C04_text_insert_only.
Print Assumptions C04_html_conservation_partial.
