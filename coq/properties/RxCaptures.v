(* RxCaptures — capture soundness of the executable engine rxE (premise of C10_capture_partial, T8).
   Statements only; proofs in RIO.RxCapt (capture-aware semantics of the matcher), RIO.RxCapt2 (anchored chains),
   RIO.RxCapt3 (marker templates).
   SCOPE.  The capture pattern is taken at the token level: one literal per literal piece, one capturing group
   ( regex ) per reference, marker regexes without inner groups ([cap_simple], executable) — the i-th reference is
   capture group i, which is what Marker.strip_named computes for (?P<name>regex) groups in that case.  The link from
   Marker.ms_capture_run (string-level construction of the capture pattern and strip_named) to this token list is NOT
   proved here.  Case-sensitive matching (ic = false): with case folding a literal of the template may match a
   different character of the haystack, and "captured = instantiated" is then only true up to case. *)
Require Import Coq.Strings.String.
Require Import RIO.Base RIO.Pct RIO.Url RIO.Prefix RIO.RegexSem RIO.Marker RIO.MarkerProofs RIO.Rx RIO.C10Run.
Require Import RIO.RxMatch RIO.RxToks RIO.RxTokSem RIO.RxTokSem3 RIO.RxCapt RIO.RxCapt2 RIO.RxCapt3 RIO.RxCapt4 RIO.RxCapt5 RIO.RxCapt6 RIO.RxCapt7.
Close Scope N_scope.

(* (1) capture-aware soundness of the matcher: [reachc] threads the capture list; a capturing group RGroup (Some i) a
   pushes (i, (start, end)) of its own sub-derivation ( reachc ic (RGroup (Some i) a) s s' unfolds to
   exists s1, reachc ic a s s1 /\ s' = (fst s1, (i, (cpos s, cpos s1)) :: snd s1) ) *)
Theorem rx_matcher_sound_captures : forall A ic r pos rest cs (k : cont A) x, m A ic r pos rest cs k = Some x ->
  exists s', reachc ic r ((pos, rest), cs) s' /\ k (cpos s') (snd (fst s')) (snd s') = Some x.
Proof. exact m_sound_c. Qed.
Theorem rx_reachc_forgets_to_reach : forall ic r s s', reachc ic r s s' -> reach ic r (fst s) (fst s').
Proof. exact reachc_reach. Qed.

(* (2) what rx_captures returns on an anchored chain of simple capturing tokens is a valid parse of the haystack:
   [spans] walks the tokens; each literal matches the next character, the i-th group has its span recorded under
   index i, starts where the previous token ended, is accepted by the oracle G_rx, and the walk ends at the end *)
Theorem rx_captures_valid : forall ic ts s cs, forallb cap_simple ts = true ->
  rx_captures ic (leaf_regex (render ts)) s = Some cs -> spans ic ts 1 0 s cs.
Proof. exact rx_captures_valid_parse. Qed.

(* (3) captured values = instantiated values, no premise about the engine *)
Theorem C10_capture_rx : forall markers sepb (val : str -> str) ps cs,
  forallb cap_simple (map (ctok markers) ps) = true -> NoDup (refs ps) ->
  (forall n whole p k, In n (refs ps) -> G_rx false (regex_of markers n) whole p k = true -> sep_free sepb (firstn k (skipn p whole)) = true) ->
  sep_delimited sepb ps = true -> (forall n, sep_free sepb (val n) = true) ->
  eng_captures rxE false (leaf_regex (render (map (ctok markers) ps))) (instantiate val ps) = Some cs ->
  forall n, In (PRef n) ps -> cap_fun ps 1 cs (instantiate val ps) n = val n.
Proof. exact rx_captures_are_values. Qed.

(* the family [0-9]+ / [a-z]+ with separator '/': every hypothesis about the marker languages is discharged *)
Definition cbody_digits : list N := [91;48;45;57;93;43]%N.
Definition cbody_lower : list N := [91;97;45;122;93;43]%N.
Definition fam_cap (b : list N) : bool := str_eqb b cbody_digits || str_eqb b cbody_lower.

Definition sep_slash_c : N -> bool := fun c => N.eqb c 47.

Lemma fam_cap_no_slash : forall ic body whole pos k, fam_cap body = true -> G_rx ic body whole pos k = true ->
  sep_free sep_slash_c (firstn k (skipn pos whole)) = true.
Proof.
  intros ic body whole pos k Hf Hg. unfold fam_cap in Hf.
  assert (Hcls : forall items, (forall c, class_has ic false items c = true -> negb (N.eqb c 47) = true) ->
            reach ic (RGroup None (RPlus true (RClass false items))) (pos, skipn pos whole) (pos + k, skipn k (skipn pos whole)) ->
            sep_free sep_slash_c (firstn k (skipn pos whole)) = true).
  { intros items Hi Hr. apply plus_class_span in Hr. unfold sep_free, sep_slash_c. rewrite forallb_forall in *. intros x Hx. apply Hi. apply Hr. exact Hx. }
  apply orb_prop in Hf. destruct Hf as [Hf|Hf]; apply str_eqb_spec in Hf; subst body; unfold G_rx in Hg.
  - change (tok_atom 1 (TGrp cbody_digits)) with (Some (RGroup (Some 1) (RPlus true (RClass false [CRange 48 57])), 2)) in Hg.
    apply reaches_to_iff in Hg. apply (Hcls [CRange 48 57]); [|exact Hg].
    intros c Hc. destruct (N.eqb c 47) eqn:E; [|reflexivity]. apply N.eqb_eq in E. subst c. destruct ic; discriminate Hc.
  - change (tok_atom 1 (TGrp cbody_lower)) with (Some (RGroup (Some 1) (RPlus true (RClass false [CRange 97 122])), 2)) in Hg.
    apply reaches_to_iff in Hg. apply (Hcls [CRange 97 122]); [|exact Hg].
    intros c Hc. destruct (N.eqb c 47) eqn:E; [|reflexivity]. apply N.eqb_eq in E. subst c. destruct ic; discriminate Hc.
Qed.

Lemma fam_cap_simple : forall markers ps, (forall n, In n (refs ps) -> fam_cap (regex_of markers n) = true) ->
  forallb cap_simple (map (ctok markers) ps) = true.
Proof.
  intros markers ps. induction ps as [|p ps IH]; intros H; [reflexivity|]. cbn [map forallb]. apply andb_true_intro. split.
  - destruct p as [c|m]; [reflexivity|]. cbn [ctok]. assert (Hm : fam_cap (regex_of markers m) = true) by (apply H; cbn [refs flat_map app]; left; reflexivity).
    unfold fam_cap in Hm. apply orb_prop in Hm. destruct Hm as [Hm|Hm]; apply str_eqb_spec in Hm; rewrite Hm; vm_compute; reflexivity.
  - apply IH. intros n Hn. apply H. cbn [refs flat_map]. apply in_or_app. right. exact Hn.
Qed.

(* markers [0-9]+ / [a-z]+, separator '/', distinct references: the captures of rxE are the instantiated values *)
Theorem C10_capture_rx_simple : forall markers (val : str -> str) ps cs,
  (forall n, In n (refs ps) -> fam_cap (regex_of markers n) = true) -> NoDup (refs ps) ->
  sep_delimited sep_slash_c ps = true -> (forall n, sep_free sep_slash_c (val n) = true) ->
  eng_captures rxE false (leaf_regex (render (map (ctok markers) ps))) (instantiate val ps) = Some cs ->
  forall n, In (PRef n) ps -> cap_fun ps 1 cs (instantiate val ps) n = val n.
Proof.
  intros markers val ps cs Hfam Hnd Hd Hv Hc.
  apply (C10_capture_rx markers sep_slash_c val ps cs (fam_cap_simple markers ps Hfam) Hnd); try assumption.
  intros n whole p k Hn Hg. apply (fam_cap_no_slash false _ whole p k (Hfam n Hn) Hg).
Qed.

(* non-vacuity: /a/@id/@n with id := [0-9]+ and n := [a-z]+, values 12 and xy *)
Example capture_example :
  let markers := [(lit "id", cbody_digits); (lit "n", cbody_lower)] in
  let ps := [PLit 47; PLit 97; PLit 47; PRef (lit "id"); PLit 47; PRef (lit "n")]%N in
  let val := fun n => if str_eqb n (lit "id") then lit "12" else lit "xy" in
  eng_captures rxE false (leaf_regex (render (map (ctok markers) ps))) (instantiate val ps) = Some [(2, (6, 8)); (1, (3, 5))]
  /\ cap_fun ps 1 [(2, (6, 8)); (1, (3, 5))] (instantiate val ps) (lit "id") = lit "12"
  /\ cap_fun ps 1 [(2, (6, 8)); (1, (3, 5))] (instantiate val ps) (lit "n") = lit "xy".
Proof. cbv zeta. repeat split; vm_compute; reflexivity. Qed.

(* ================================================================== the MODEL's capture function *)
(* Marker.ms_capture_run: decode the capture pattern the model built (named groups), strip_named it, call the engine's
   captures on ^stripped$, and insert name -> substring for every named group.
   (1) is NOT proved in general; it is reduced to an executable check on the model's own output:
       [strip_ok markers ps m]  =  strip_named (utf8_decode (ms_capture m)) returns exactly
                                   (render (map (ctok markers) ps), the references numbered 1, 2, ... in template order),
                                   without duplicate or ill-formed group names.
   (2) under that check and the hypotheses of C10_capture_rx, the association list the model returns maps every
       referenced name to its instantiated value — when the capture regex matches; otherwise the model returns []. *)
Lemma marker_string_new_ic : forall s markers ic m, marker_string_new s markers ic = Some m -> ms_ignore_case m = ic.
Proof.
  intros s markers ic m. unfold marker_string_new. destruct (fold_left _ _ _) as [[regex capture] names].
  destruct (is_nil names); [discriminate|]. intros H. inversion H. reflexivity.
Qed.

Theorem C10_model_capture_rx : forall markers sepb (val : str -> str) ps m,
  marker_string_new (template_text ps) markers false = Some m -> strip_ok markers ps m = true ->
  forallb cap_simple (map (ctok markers) ps) = true -> NoDup (refs ps) -> (forall x, In x (refs ps) -> all_ascii x = true) ->
  (forall n whole p k, In n (refs ps) -> G_rx false (regex_of markers n) whole p k = true -> sep_free sepb (firstn k (skipn p whole)) = true) ->
  sep_delimited sepb ps = true -> (forall n, sep_free sepb (val n) = true) ->
  all_ascii (instantiate val ps) = true ->
  eng_is_match rxE false (leaf_regex (render (map (ctok markers) ps))) (instantiate val ps) = true ->
  forall n, In (PRef n) ps ->
    assoc n (sod_capture rxE (new_with_markers (template_text ps) markers false) (instantiate val ps)) = Some (val n).
Proof.
  intros markers sepb val ps m Hm Hstrip Hsimple Hnd Hasc HG Hd Hv Hhay Hmatch n Hin.
  unfold new_with_markers. destruct markers as [|mk markers]; [cbn in Hm; unfold marker_string_new in Hm; cbn in Hm; discriminate|].
  cbn [is_nil]. rewrite Hm. cbn [sod_capture].
  apply (model_capture_rx (mk :: markers) sepb val ps m (marker_string_new_ic _ _ _ _ Hm) Hstrip Hsimple Hnd Hasc HG Hd Hv Hhay Hmatch n Hin).
Qed.

(* markers [0-9]+ / [a-z]+ and separator '/': only the executable check on the model's pattern and the match remain *)
Theorem C10_model_capture_rx_simple : forall markers (val : str -> str) ps m,
  marker_string_new (template_text ps) markers false = Some m -> strip_ok markers ps m = true ->
  (forall n, In n (refs ps) -> fam_cap (regex_of markers n) = true) -> NoDup (refs ps) -> (forall x, In x (refs ps) -> all_ascii x = true) ->
  sep_delimited sep_slash_c ps = true -> (forall n, sep_free sep_slash_c (val n) = true) ->
  all_ascii (instantiate val ps) = true ->
  eng_is_match rxE false (leaf_regex (render (map (ctok markers) ps))) (instantiate val ps) = true ->
  forall n, In (PRef n) ps ->
    assoc n (sod_capture rxE (new_with_markers (template_text ps) markers false) (instantiate val ps)) = Some (val n).
Proof.
  intros markers val ps m Hm Hstrip Hfam Hnd Hasc Hd Hv Hhay Hmatch.
  apply (C10_model_capture_rx markers sep_slash_c val ps m Hm Hstrip (fam_cap_simple markers ps Hfam) Hnd Hasc); try assumption.
  intros n whole p k Hn Hg. apply (fam_cap_no_slash false _ whole p k (Hfam n Hn) Hg).
Qed.

(* (1), second half PROVED (RIO.RxCapt5): Marker.strip_named maps the NAMED rendering of a template
   ( literal | (?P<name>regex) )*  to the token rendering, numbering the references 1, 2, ... in template order — for
   literal pieces that are not regex meta characters and marker regexes [0-9]+ / [a-z]+ . *)
Theorem strip_named_on_named_rendering : forall markers ps, Forall (piece_ok markers) ps ->
  strip_named (S (length (render_named markers ps))) (render_named markers ps) 0 1 [] [] =
  Some (render (map (ctok markers) ps), index_refs ps 1).
Proof. exact strip_render_named. Qed.
(* so [strip_ok] follows from an EQUALITY on the model's capture pattern: what remains unproved of (1) is only that
   MarkerString::new's string substitutions produce this named rendering (first half; true on the example below) *)
Theorem C10_model_capture_rx_named : forall markers (val : str -> str) ps m,
  marker_string_new (template_text ps) markers false = Some m ->
  utf8_decode (ms_capture m) = render_named markers ps ->
  Forall (piece_ok markers) ps -> has_dup (refs ps) = false -> forallb group_name_ok (refs ps) = true ->
  NoDup (refs ps) -> (forall x, In x (refs ps) -> all_ascii x = true) ->
  sep_delimited sep_slash_c ps = true -> (forall n, sep_free sep_slash_c (val n) = true) ->
  all_ascii (instantiate val ps) = true ->
  eng_is_match rxE false (leaf_regex (render (map (ctok markers) ps))) (instantiate val ps) = true ->
  forall n, In (PRef n) ps ->
    assoc n (sod_capture rxE (new_with_markers (template_text ps) markers false) (instantiate val ps)) = Some (val n).
Proof.
  intros markers val ps m Hm Hcap Hp Hdup Hgn Hnd Hasc Hd Hv Hhay Hmatch.
  apply (C10_model_capture_rx_simple markers val ps m Hm (strip_ok_of_named markers ps m Hp Hcap Hdup Hgn)); try assumption.
  intros n Hn. rewrite Forall_forall in Hp.
  assert (Hin : In (PRef n) ps).
  { clear - Hn. induction ps as [|[c|x] ps IH]; cbn [refs flat_map app] in Hn; [destruct Hn|right; apply IH; exact Hn|].
    destruct Hn as [->|Hn]; [left; reflexivity|right; apply IH; exact Hn]. }
  destruct (Hp _ Hin) as [[Hb|Hb] _]; unfold fam_cap; rewrite Hb; reflexivity.
Qed.

(* (3) /a/@id/@n : the check holds on the model's own pattern, and the model's capture is the instantiation *)
Example model_capture_example :
  let markers := [(lit "id", cbody_digits); (lit "n", cbody_lower)] in
  let ps := [PLit 47; PLit 97; PLit 47; PRef (lit "id"); PLit 47; PRef (lit "n")]%N in
  let val := fun n => if str_eqb n (lit "id") then lit "12" else lit "xy" in
  (exists m, marker_string_new (template_text ps) markers false = Some m /\ strip_ok markers ps m = true
             /\ ms_capture m = lit "/a/(?P<id>[0-9]+)/(?P<n>[a-z]+)")
  /\ template_text ps = lit "/a/@id/@n" /\ instantiate val ps = lit "/a/12/xy"
  /\ sod_capture rxE (new_with_markers (template_text ps) markers false) (instantiate val ps) = [(lit "id", lit "12"); (lit "n", lit "xy")].
Proof.
  cbv zeta. split; [|repeat split; vm_compute; reflexivity].
  eexists. split; [vm_compute; reflexivity|]. repeat split; vm_compute; reflexivity.
Qed.

(* ================================================================== (1) first half, and the closed theorem *)
(* RIO.RxCapt6: the capture pattern MarkerString::new builds is the named rendering of the template (literals escaped
   as the model escapes them, references as (?P<name>regex) ), under the side conditions of C10_template_shape.
   The fold of ms_step tests regex.contains("@name") on the REGEX component while rewriting both components; the
   invariant relates the chunks of the two strings (same marker name, then a non-identifier character). *)
Theorem C10_template_capture_shape : forall markers ps ic m, NoDup (map fst markers) -> template_ok markers ps = true ->
  marker_string_new (template_text ps) markers ic = Some m -> ms_capture m = render_named_model markers ps.
Proof. exact template_capture_shape. Qed.

Lemma named_model_eq : forall markers ps, Forall (piece_ok markers) ps -> render_named_model markers ps = render_named markers ps.
Proof.
  intros markers ps H. induction H as [|p ps Hp _ IH]; [reflexivity|]. unfold render_named_model, render_named in *. cbn [flat_map]. rewrite IH. f_equal.
  destruct p as [c|n]; cbn [named_text named_piece piece_ok render1] in *; [rewrite Hp; reflexivity|reflexivity].
Qed.
Lemma has_dup_NoDup : forall l, has_dup l = false -> NoDup l.
Proof.
  induction l as [|x l IH]; intros H; [constructor|]. cbn [has_dup] in H. apply orb_false_iff in H. destruct H as [H1 H2]. constructor; [|apply IH; exact H2].
  intros Hin. assert (existsb (str_eqb x) l = true) by (apply existsb_exists; exists x; split; [exact Hin|apply str_eqb_refl]). congruence.
Qed.

(* CLOSED: hypotheses only about the template, the markers, the separator and the values.
   Scope (side conditions, all executable except the two universally quantified ones on val):
   literal pieces that are not regex meta characters, marker regexes [0-9]+ / [a-z]+ ([piece_ok]), the conditions of
   C10_template_shape ([template_ok], distinct marker names), distinct well-formed ASCII reference names, ASCII pattern and
   request, separator '/', values non-empty and in their marker's class ([vals_ok]) and without '/'. *)
Theorem C10_model_capture_rx_closed : forall markers (val : str -> str) ps,
  NoDup (map fst markers) -> template_ok markers ps = true -> Forall (piece_ok markers) ps ->
  has_dup (refs ps) = false -> forallb group_name_ok (refs ps) = true -> (forall x, In x (refs ps) -> all_ascii x = true) ->
  all_ascii (render_named markers ps) = true ->
  sep_delimited sep_slash_c ps = true -> vals_ok markers val ps -> (forall n, sep_free sep_slash_c (val n) = true) ->
  all_ascii (instantiate val ps) = true ->
  forall n, In (PRef n) ps ->
    assoc n (sod_capture rxE (new_with_markers (template_text ps) markers false) (instantiate val ps)) = Some (val n).
Proof.
  intros markers val ps Hnd Hok Hp Hdup Hgn Hasc Hpat Hd Hvals Hv Hhay n Hin.
  destruct (template_shape_some markers ps false n Hnd Hok Hin) as [m Hm].
  assert (Hcap : utf8_decode (ms_capture m) = render_named markers ps).
  { rewrite (template_capture_shape markers ps false m Hnd Hok Hm), (named_model_eq markers ps Hp). apply utf8_decode_ascii. exact Hpat. }
  apply (C10_model_capture_rx_named markers val ps m Hm Hcap Hp Hdup Hgn (has_dup_NoDup _ Hdup) Hasc Hd Hv Hhay); [|exact Hin].
  exact (capture_regex_matches markers val ps Hp Hvals).
Qed.

(* the example again, through the closed theorem's hypotheses *)
Example closed_example_hypotheses :
  let markers := [(lit "id", cbody_digits); (lit "n", cbody_lower)] in
  let ps := [PLit 47; PLit 97; PLit 47; PRef (lit "id"); PLit 47; PRef (lit "n")]%N in
  NoDup (map fst markers) /\ template_ok markers ps = true /\ Forall (piece_ok markers) ps
  /\ has_dup (refs ps) = false /\ forallb group_name_ok (refs ps) = true /\ all_ascii (render_named markers ps) = true
  /\ sep_delimited sep_slash_c ps = true.
Proof.
  cbv zeta. split; [repeat constructor; cbn; intuition discriminate|]. split; [vm_compute; reflexivity|].
  split; [repeat constructor; try reflexivity; cbn [piece_ok]; (split; [(left; reflexivity) || (right; reflexivity)|reflexivity])|].
  repeat split; vm_compute; reflexivity.
Qed.

Print Assumptions rx_matcher_sound_captures.
Print Assumptions rx_reachc_forgets_to_reach.
Print Assumptions rx_captures_valid.
Print Assumptions C10_capture_rx.
Print Assumptions C10_capture_rx_simple.
Print Assumptions capture_example.
Print Assumptions C10_model_capture_rx.
Print Assumptions C10_model_capture_rx_simple.
Print Assumptions model_capture_example.
Print Assumptions strip_named_on_named_rendering.
Print Assumptions C10_model_capture_rx_named.
Print Assumptions C10_template_capture_shape.
Print Assumptions C10_model_capture_rx_closed.
Print Assumptions closed_example_hypotheses.
