(* C11 — rule application is deterministic under any match or insertion order.  Statements only. *)
Require Import RIO.Base RIO.ActionModel RIO.ActionSpec RIO.ActionProofs.
Require Import RIO.OrderTie RIOGen.ExtRuleOrder.
Require Import RIO.Prefix RIO.Route RIO.Tree RIO.TreeProofs RIO.TreeInst RIO.Matchers RIO.MatcherSpec RIO.PathProofs RIO.RouterSpec RIO.RouterHist RIO.RouterProofs.

(* the action depends only on the SET of matched rules: any permutation of a duplicate-free match
   list gives the same action (hence the same serialisation, which is a function of the action) *)
Theorem C11_permutation : forall l1 l2 skipped ov rvs,
  Permutation l1 l2 -> NoDup (map r_id l1) ->
  from_routes_rule l1 skipped ov rvs = from_routes_rule l2 skipped ov rvs.
Proof. exact from_routes_rule_permutation_invariant. Qed.

(* the processing order itself is determined by the set *)
Theorem C11_order_determined : forall l1 l2, Permutation l1 l2 -> NoDup (map r_id l1) -> sort_rules l1 = sort_rules l2.
Proof. exact sort_rules_permutation_invariant. Qed.

(* ... and it is descending rank with ties broken by descending id *)
Theorem C11_order_is_rank_then_id : forall l,
  Sorted.StronglySorted (fun a b => (r_rank b < r_rank a)%N \/ (r_rank a = r_rank b /\ str_ltb (r_id a) (r_id b) = false)) (sort_rules l).
Proof. exact sort_rules_order. Qed.

(* inserting the same rules in a different order gives a router that matches the same rules for every request
   (router model of C01/C02; together with C11_permutation: the same action) *)
Theorem C11_insertion_order : forall lower eng valid ic_host ic_path always,
  engine_dotstar eng -> engine_prefix_law eng ->
  forall (rs rs' : list route) (q : request), Forall (ok_route lower) rs -> NoDup (ids rs) -> Permutation rs rs' ->
  Permutation (router_match lower eng valid ic_host ic_path always q (rbuild lower eng valid ic_host ic_path always rs))
              (router_match lower eng valid ic_host ic_path always q (rbuild lower eng valid ic_host ic_path always rs')).
Proof. exact build_match_any_order. Qed.

(* Non-vacuity / necessity of the hypothesis: with a duplicated id the order of the list can matter *)
Example C11_example :
  let a := {| r_id := [97]%N; r_rank := 1; r_status := Some 301%N; r_target := None; r_codes := None; r_excl := None; r_hf := []; r_bf := [];
              r_log := None; r_reset := None; r_stop := None; r_sampling := None |} in
  let b := {| r_id := [98]%N; r_rank := 1; r_status := Some 302%N; r_target := None; r_codes := None; r_excl := None; r_hf := []; r_bf := [];
              r_log := None; r_reset := None; r_stop := None; r_sampling := None |} in
  NoDup (map r_id [a; b]) /\ from_routes_rule [a; b] None None [] = from_routes_rule [b; a] None None []
  /\ fst (get_status_code (from_routes_rule [a; b] None None []) 0) = 301%N.
Proof. cbv zeta. split; [repeat constructor; cbn; intuition discriminate|]. vm_compute. auto. Qed.

(* ---- TIE TO THE SOURCE (translator): the sort keys lifted from `impl Ord for Rule` (src/api/rule.rs) on every run —
   together with the checks that Route::cmp delegates to the rule and that Action::from_routes_rule sorts the whole list
   before folding it — give the order the action model uses (ActionModel.rule_before, the order of sort_rules). *)
Theorem C11_tables_rule_order : forall a b : rule, before_by ext_rule_order a b = rule_before a b.
Proof.
  intros a b. replace ext_rule_order with [(s_rank, true); (s_id, true)] by (vm_compute; reflexivity).
  apply rule_before_is_rank_desc_id_desc.
Qed.

Print Assumptions C11_permutation.
Print Assumptions C11_order_determined.
Print Assumptions C11_order_is_rank_then_id.
Print Assumptions C11_insertion_order.
Print Assumptions C11_tables_rule_order.
