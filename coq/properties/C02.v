(* C02 — incremental rule updates are equivalent to rebuilding; clones are isolated.
   Statements only; proofs in RIO.RouterProofs. *)
Require Import RIO.Base RIO.Route RIO.Tree RIO.TreeInst RIO.Matchers RIO.MatcherSpec RIO.RouterSpec RIO.RouterHist RIO.RouterProofs.
Require RIO.LazyRegex.
Close Scope N_scope.

(* After ANY admissible history of insert / remove / batch_remove / apply_change_set / cache / clone-and-mutate
   (admissible: inserted routes acceptable, live ids stay unique) the router answers every request as the
   reference does on the flat list of live routes ... *)
Theorem C02_refines : forall lower eng valid ic_host ic_path always,
  engine_dotstar eng -> engine_prefix_law eng ->
  forall (ops : list rop) (q : request), hist_ok lower [] ops ->
  Permutation (router_match lower eng valid ic_host ic_path always q
                 (rrun lower eng valid ic_host ic_path always ops (router_new lower eng valid ic_host ic_path always)))
              (spec_match lower (eng false) (hmatch eng ic_host) (pmatch eng ic_path) always (live ops) q).
Proof. exact hist_match. Qed.

(* ... hence exactly as a router rebuilt from scratch from the live rule set *)
Theorem C02_rebuild : forall lower eng valid ic_host ic_path always,
  engine_dotstar eng -> engine_prefix_law eng ->
  forall (ops : list rop) (q : request), hist_ok lower [] ops -> Forall (ok_route lower) (live ops) ->
  Permutation (router_match lower eng valid ic_host ic_path always q
                 (rrun lower eng valid ic_host ic_path always ops (router_new lower eng valid ic_host ic_path always)))
              (router_match lower eng valid ic_host ic_path always q (rbuild lower eng valid ic_host ic_path always (live ops))).
Proof. exact hist_match_rebuild. Qed.

(* its size is the number of live rules *)
Theorem C02_len : forall lower eng valid ic_host ic_path always,
  engine_dotstar eng -> engine_prefix_law eng ->
  forall ops, hist_ok lower [] ops ->
  router_len (rrun lower eng valid ic_host ic_path always ops (router_new lower eng valid ic_host ic_path always)) = length (live ops).
Proof. exact hist_len. Qed.

(* a removal returns the removed rule, None exactly when the id is not live *)
Theorem C02_remove_returns : forall lower eng valid ic_host ic_path always,
  engine_dotstar eng -> engine_prefix_law eng ->
  forall ops id, hist_ok lower [] ops ->
  snd (router_remove lower eng valid ic_host ic_path always id
         (rrun lower eng valid ic_host ic_path always ops (router_new lower eng valid ic_host ic_path always)))
  = find_id id (live ops).
Proof. exact hist_remove. Qed.

(* a removed rule never matches again: it is not in the live list any more *)
Theorem C02_removed_not_live : forall (L : list route) id r, In r (live_step L (RRem id)) -> rt_id r <> id.
Proof.
  intros L id r H. cbn in H. apply filter_In in H. destruct H as [_ H]. unfold mem_str in H. cbn in H.
  rewrite orb_false_r in H. apply negb_true_iff in H. intros E. subst. rewrite str_eqb_refl in H. discriminate.
Qed.

(* clone isolation in the functional model: deriving and mutating a clone is the identity on the original.
   (Aliasing cannot go wrong in Gallina; this clause is decided by the correspondence run, which clones the real
   Router, mutates the clone and keeps probing the original.) *)
Theorem C02_clone_mut_identity : forall lower eng valid ic_host ic_path always R ops,
  rstep lower eng valid ic_host ic_path always R (RCloneMut ops) = R.
Proof. reflexivity. Qed.

(* Non-vacuity: an admissible history with a static and a dynamic rule, a removal, a change set that updates
   a rule into another bucket and re-adds the removed one, and a cache step *)
Definition ex_route (id : str) (rank : Z) (host : option sod) (path : sod) (methods : option (list str)) : route :=
  {| rt_tag := 0; rt_id := id; rt_priority := (- rank)%Z; rt_scheme := None; rt_host := host; rt_methods := methods; rt_exclude_methods := None;
     rt_path := path; rt_headers := []; rt_ips := None; rt_datetime := None; rt_time := None; rt_weekdays := None |}.
Definition ex_re : list Prefix.tok := [Prefix.TLit 47%N; Prefix.TLit 120%N; Prefix.TLit 47%N; Prefix.TGrp [91;48;45;57;93;43]%N].   (* /x/([0-9]+) *)
Example C02_example_hist_ok : forall lower,
  let r1 := ex_route [114;49]%N 1 None (SStatic [47;120]%N) None in
  let r2 := ex_route [114;50]%N 2 (Some (SStatic [97;46;99;111;109]%N)) (SDynamic (Prefix.render ex_re)) (Some [[71;69;84]%N]) in
  let r2' := ex_route [114;50]%N 0 None (SStatic [47;121]%N) None in
  hist_ok lower [] [RIns r1; RIns r2; RRem [114;49]%N; RChange [r1] [r2'] []; RCache None; RCloneMut [RRem [114;50]%N]]
  /\ map rt_id (live [RIns r1; RIns r2; RRem [114;49]%N; RChange [r1] [r2'] []; RCache None]) = [[114;50]%N; [114;49]%N].
Proof.
  intros lower r1 r2 r2'.
  assert (H1 : ok_route lower r1) by (apply (ok_route_intro lower (fun _ _ => true) true); cbn; auto; constructor).
  assert (H2 : ok_route lower r2).
  { apply (ok_route_intro lower (fun _ _ => true) true); cbn; auto; [|constructor|repeat constructor; intros []].
    split; [exists ex_re; split; reflexivity|discriminate]. }
  assert (H2' : ok_route lower r2') by (apply (ok_route_intro lower (fun _ _ => true) true); cbn; auto; constructor).
  split; [|reflexivity]. cbn [hist_ok op_ok live_step].
  split; [split; [exact H1|intros []]|].
  split; [split; [exact H2|vm_compute; intros [H|[]]; discriminate]|].
  split; [exact I|].
  split; [|auto].
  split; [repeat constructor; assumption|].
  split; [vm_compute; constructor; [intros [H|[]]; discriminate|constructor; [intros []|constructor]]|].
  intros r [<-|[]]. vm_compute. intros [].
Qed.

(* ---- clone isolation, the part a functional model CAN carry.  A router derived from a shared one (clone, then
   update) owns deep copies of every matcher and tree (#[derive(Clone)]; a tree's LazyRegex sits behind an Arc that
   cache() REPLACES, never mutates) and shares only immutable routes behind Arc — with ONE exception: the capture regex of
   a marker string, an Arc<RwLock<LazyRegex>> that Router::cache on either router compiles in place.  That shared cell
   is invisible: whatever number of compile calls the other router makes on it, regex() (what capture() uses) hands out
   the same regex.  Everything else of the clause is Rust ownership and is observed by the run (real clone mutated,
   original probed). *)
Theorem C02_clone_shared_state_invisible : forall valid n (r : LazyRegex.lazyrx),
  LazyRegex.wf valid r -> LazyRegex.regex_of valid (LazyRegex.compile_n valid n r) = LazyRegex.regex_of valid r.
Proof. exact LazyRegex.shared_compile_invisible. Qed.

Print Assumptions C02_refines.
Print Assumptions C02_rebuild.
Print Assumptions C02_len.
Print Assumptions C02_remove_returns.
Print Assumptions C02_removed_not_live.
Print Assumptions C02_clone_shared_state_invisible.
