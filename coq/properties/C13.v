(* C13 — header filters implement add / remove / replace / override / default exactly.
   This file only pins statements; proofs live in RIO.HeadersProofs. *)
Require Import RIO.Base RIO.Headers RIO.HeadersSpec RIO.HeadersProofs RIOGen.ExtHeaders.

(* The action-name table lifted from create_header_action is the one the reference assumes. *)
Lemma extracted_table_ok :
  header_action_table
  = [(s_add, KAdd); (s_remove, KRemove); (s_replace, KReplace); (s_override, KOverride); (s_default, KDefault)].
Proof. reflexivity. Qed.

(* Main statement: for EVERY lowercasing function, filter list and header list, what
   Action::filter_headers applies (FilterHeaderAction::new + filter, modelled loop by loop) is the
   left fold of the five reference operations; unknown actions are the identity. *)
Theorem C13_sequence : forall (lower : str -> str) (fs : list hfilter) (hs : list header),
  apply_header_filters lower header_action_table fs hs = reference lower fs hs.
Proof. intros. apply apply_header_filters_reference. exact extracted_table_ok. Qed.

(* Per-operation characterisations of the loop-level model *)
Theorem C13_add : forall n v hs, add_filter n v hs = hs ++ [(n, v)].
Proof. reflexivity. Qed.
Theorem C13_remove : forall lower n hs, remove_filter lower n hs = others lower n hs.
Proof. exact remove_filter_spec. Qed.
Theorem C13_replace : forall lower n v hs, replace_filter lower n v hs = rewrite_all lower n v hs.
Proof. exact replace_filter_spec. Qed.
Theorem C13_override : forall lower n v hs,
  override_filter lower n v hs = if present lower n hs then rewrite_all lower n v hs else hs ++ [(n, v)].
Proof. exact override_filter_spec. Qed.
Theorem C13_default : forall lower n v hs,
  default_filter lower n v hs = if present lower n hs then hs else hs ++ [(n, v)].
Proof. exact default_filter_spec. Qed.

(* Frame: all other headers keep their value and relative order *)
Theorem C13_frame : forall lower f hs,
  others lower (hf_header f) (reference_op lower f hs) = others lower (hf_header f) hs.
Proof. exact frame_reference_op. Qed.
Theorem C13_frame_per_name : forall lower f hs m,
  same_name lower m (hf_header f) = false ->
  (forall a, same_name lower a m = true -> same_name lower a (hf_header f) = false) ->
  filter (fun h => same_name lower (fst h) m) (reference_op lower f hs)
  = filter (fun h => same_name lower (fst h) m) hs.
Proof. exact frame_other_name. Qed.

(* Non-vacuity: a concrete run through all five operations and an unknown one *)
Example C13_example :
  let lw := map ascii_lower in
  let X := [88]%N in let x := [120]%N in let Y := [89]%N in let v1 := [49]%N in let v2 := [50]%N in
  apply_header_filters lw header_action_table
    [ {| hf_action := s_add; hf_header := Y; hf_value := v1 |};
      {| hf_action := s_replace; hf_header := x; hf_value := v2 |};
      {| hf_action := [63]%N; hf_header := x; hf_value := v2 |};
      {| hf_action := s_default; hf_header := Y; hf_value := v2 |};
      {| hf_action := s_remove; hf_header := [122]%N; hf_value := [] |};
      {| hf_action := s_override; hf_header := Y; hf_value := v2 |} ]
    [(X, v1); ([90]%N, v1); (x, v1)]
  = [(x, v2); (x, v2); (Y, v2)].
Proof. vm_compute. reflexivity. Qed.

Print Assumptions C13_sequence.
Print Assumptions C13_remove.
Print Assumptions C13_replace.
Print Assumptions C13_override.
Print Assumptions C13_default.
Print Assumptions C13_frame.
Print Assumptions C13_frame_per_name.
