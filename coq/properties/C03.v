Require Import RIO.Base.
