(* C03 — body filtering is invariant under chunking of the response stream.
   Statements only; proofs in RIO.ChainProofs.
   What is proved for ALL bodies, filter lists and chunkings: (1) the chain discipline of FilterBodyAction
   (early break on empty data, end cascade) preserves chunk invariance of its stages: if every stage satisfies
   the SPLIT LAW (feeding c1 then c2 = feeding c1 ++ c2: same state, concatenated output) then the whole chain's
   output (filtered chunks ++ end) is that of the single chunk; (2) the text stages satisfy the law, so chains of
   text filters are chunk invariant unconditionally.  For the HTML stage the split law is the restart property of
   the tokenizer-driven filter; it is a HYPOTHESIS of C03_chain (named, not an axiom) and is what the
   correspondence run exercises on the crate (every chunking is compared with the single chunk).
   (3) The HTML stage satisfies the split law in every state and for every pair of chunks as long as the run does not
   end in the stage's error state (C03_html_stage_law), hence C03_chunk_invariance: any filter list, any chunking, every
   body on which no HTML stage ends in error when fed as one chunk.  The error state is entered only when
   String::from_utf8 fails; on non-UTF-8 bodies the law is false (C03_law_fails_on_invalid_utf8).
   (4) On a valid UTF-8 body, with filter values that are valid UTF-8 (they are Rust Strings), no stage ever enters the
   error state and every stage hands valid UTF-8 to the next one (C03_html_stage_utf8: tokens end just after '>' or just
   before '<', tag names lie between ASCII bytes — RIO.TokBound, RIO.TokErr, RIO.HtmlUtf8), hence
   C03_chunk_invariance_utf8: the property for every filter list, every selector oracle, every chunking. *)
Require Import RIO.Base RIO.TokMonad RIO.HtmlTok RIO.BodyText RIO.HtmlFilter RIO.ChainProofs RIO.BodyProofs.
Require Import RIO.TokLogic RIO.HtmlTokProofs RIO.TokShift RIO.HtmlSplit RIO.TokBound RIO.TokErr RIO.Utf8 RIO.HtmlUtf8.
Close Scope N_scope.

(* (1) the chain preserves chunk invariance *)
Theorem C03_chain : forall lower sel ctok fs c cs,
  (forall st, In st (stages_of ctok fs) -> split_law stage (stage_tf lower sel) st) ->
  body_run lower sel ctok fs (c :: cs) = body_run lower sel ctok fs [concat (c :: cs)].
Proof.
  intros lower sel ctok fs c cs H. rewrite !body_run_total.
  apply (run_chunk_invariant stage (stage_tf lower sel) stage_te (fun st => In st (stages_of ctok fs))).
  - exact H.
  - apply Forall_forall. auto.
Qed.

(* (2) text stages satisfy the split law *)
Theorem C03_text_stage_law : forall lower sel t, split_law stage (stage_tf lower sel) (StText t).
Proof. exact text_stage_split. Qed.

(* hence: any list of text filters, any body (valid UTF-8 or not), any chunking incl. empty chunks *)
Theorem C03_text_filters : forall lower sel ctok fs c cs,
  (forall f, In f fs -> match f with BFText _ _ => True | BFHtml _ => False end) ->
  body_run lower sel ctok fs (c :: cs) = body_run lower sel ctok fs [concat (c :: cs)].
Proof.
  intros lower sel ctok fs c cs Hall. apply C03_chain. intros st Hst.
  assert (Hst' : exists t, st = StText t).
  { clear - Hall Hst. induction fs as [|f fs IH]; cbn in Hst; [destruct Hst|].
    destruct f as [a co|h]; [|exfalso; apply (Hall (BFHtml h)); left; reflexivity].
    cbn in Hst. destruct Hst as [<-|Hst]; [eexists; reflexivity|]. apply IH; [intros g Hg; apply Hall; right; exact Hg|exact Hst]. }
  destruct Hst' as [t ->]. apply C03_text_stage_law.
Qed.

(* Non-vacuity of the hypothesis of C03_chain on an HTML stage: a concrete document cut inside a script, inside a
   comment and inside a multi-byte character (the three defects repaired in the crate) *)
Example C03_example_html :
  let lw := map ascii_lower in
  let f := [BFHtml {| hf_kind := HAppendChild; hf_value := [60;105;62]%N; hf_tree := [[104;116;109;108]%N; [98;111;100;121]%N]; hf_css := None |}] in
  let doc := [60;104;116;109;108;62;60;98;111;100;121;62;60;115;99;114;105;112;116;62;34;60;47;98;111;100;121;62;34;60;47;115;99;114;105;112;116;62;60;33;45;45;32;60;47;98;111;100;121;62;32;45;45;62;195;169;60;47;98;111;100;121;62;60;47;104;116;109;108;62]%N in
  forallb (fun k => str_eqb (body_run lw (fun _ _ => false) true f [firstn k doc; skipn k doc]) (body_run lw (fun _ _ => false) true f [doc]))
          (seq 0 (S (length doc))) = true.
Proof. vm_compute. reflexivity. Qed.


(* (3) The HTML stage (proofs: RIO.HtmlSplit, RIO.TokShift, on top of the tokenizer theorems of C16: prefix stability
   C16_stable, totality C16_next_total, and the restart property RIO.TokShift.next_shift).
   [lower_ok lower]: the lowercase oracle is ASCII lowercasing on the ten raw-text element names (the only hypothesis
   on String::to_lowercase).  [stage_ok] = the stage is not in its error state (in_error), which it enters only when
   String::from_utf8 fails, i.e. on bodies that are not UTF-8. *)

(* the stage's loop is a fold over the token stream of the data: every complete token is processed in order, a
   last text token containing '<' is held back together with the incomplete rest *)
Theorem C03_html_fold : forall lower sel, lower_ok lower -> forall d F s out, tinv wf0 d s ->
  filter_loop lower sel (fuel_of d) F d s out
  = spec_from lower sel (fst (toks lower (fuel_of d) d s)) (snd (toks lower (fuel_of d) d s)) F out.
Proof. intros lower sel LO. exact (filter_loop_spec lower sel wf0 (tok_facts_wf0 lower LO)). Qed.

(* the split law of the HTML stage, for EVERY state F of the stage and every pair of chunks, as long as the run on
   c1 ++ c2 does not end in the error state; then the run on c1 does not either *)
Theorem C03_html_stage_law : forall lower sel, lower_ok lower -> forall F c1 c2,
  f_in_error (fst (hfb_filter lower sel F (c1 ++ c2))) = false ->
  (let '(F1, o1) := hfb_filter lower sel F c1 in let '(F2, o2) := hfb_filter lower sel F1 c2 in (F2, o1 ++ o2))
  = hfb_filter lower sel F (c1 ++ c2)
  /\ f_in_error (fst (hfb_filter lower sel F c1)) = false.
Proof. intros lower sel LO. exact (hfb_split_law_noerr lower sel wf0 (tok_facts_wf0 lower LO)). Qed.

(* in the error state the stage is the identity *)
Theorem C03_html_stage_law_in_error : forall lower sel F c1 c2, f_in_error F = true ->
  (let '(F1, o1) := hfb_filter lower sel F c1 in let '(F2, o2) := hfb_filter lower sel F1 c2 in (F2, o1 ++ o2))
  = hfb_filter lower sel F (c1 ++ c2).
Proof. exact hfb_split_law_in_error_partial. Qed.

(* chunk invariance of the whole body filter (any list of text and HTML filters, any chunking incl. empty chunks)
   on every body for which no HTML stage ends in its error state when the body is fed as a single chunk *)
Theorem C03_chunk_invariance : forall lower sel ctok fs c cs, lower_ok lower ->
  Forall stage_ok (fst (cf stage (stage_tf lower sel) (stages_of ctok fs) (concat (c :: cs)))) ->
  body_run lower sel ctok fs (c :: cs) = body_run lower sel ctok fs [concat (c :: cs)].
Proof. intros lower sel ctok fs c cs LO. exact (body_chunk_invariance lower sel ctok fs c cs LO). Qed.

(* ASCII lowercasing is such an oracle *)
Theorem C03_lower_ok_ascii : lower_ok (map ascii_lower).
Proof. exact lower_ok_ascii. Qed.


(* (4) valid UTF-8 bodies.  [vF F]: the visitor's value and the stage's buffers are valid UTF-8 (true initially). *)
Theorem C03_html_stage_utf8 : forall lower sel, lower_ok lower -> forall F c,
  vF F -> utf8_valid (f_last F ++ c) = true ->
  exists F' out, do_filter lower sel F c = ROk (F', out)
    /\ vF F' /\ utf8_valid out = true /\ utf8_valid (f_last F') = true.
Proof. exact do_filter_valid. Qed.

(* the filter values are Rust Strings *)
Theorem C03_filter_values_utf8_def : forall fs,
  filter_values_utf8 fs <->
  (forall f, In f fs -> match f with BFText _ c => utf8_valid c = true | BFHtml h => utf8_valid (hf_value h) = true end).
Proof. intros fs. reflexivity. Qed.

(* C03: chunk invariance for every valid UTF-8 body, every list of text and HTML filters, every selector oracle and
   every chunking (incl. empty chunks, cuts inside tags, scripts, comments and multi-byte characters) *)
Theorem C03_chunk_invariance_utf8 : forall lower sel ctok fs c cs, lower_ok lower ->
  utf8_valid (concat (c :: cs)) = true -> filter_values_utf8 fs ->
  body_run lower sel ctok fs (c :: cs) = body_run lower sel ctok fs [concat (c :: cs)].
Proof. intros lower sel ctok fs c cs LO. exact (body_chunk_invariance_utf8 lower sel LO ctok fs c cs). Qed.

(* The side condition cannot be dropped: on a body that is NOT valid UTF-8 the stage's error path releases the raw
   bytes it holds, so what was already edited in an earlier chunk stays edited, while the single-chunk run returns
   the whole body unedited.  (C03 quantifies over UTF-8 bodies.) *)
Example C03_law_fails_on_invalid_utf8 :
  let lw := map ascii_lower in
  let sel := fun _ _ : str => false in
  let v := {| v_kind := VAppend; v_tree := [[98;111;100;121]%N]; v_pos := 0; v_sel := None; v_content := [60;105;62]%N;
              v_buffering := false; v_oob := false |} in
  let c1 := [60;98;111;100;121;62;120;60;47;98;111;100;121;62]%N in        (* <body>x</body> *)
  let c2 := [255;60;112;62;121]%N in                                        (* \xFF<p>y *)
  let '(F1, o1) := hfb_filter lw sel (hfb_new v) c1 in
  let '(F2, o2) := hfb_filter lw sel F1 c2 in
  let '(F3, o3) := hfb_filter lw sel (hfb_new v) (c1 ++ c2) in
  o1 ++ o2 = [60;98;111;100;121;62;120;60;105;62;60;47;98;111;100;121;62;255;60;112;62;121]%N   (* <body>x<i></body>\xFF<p>y *)
  /\ o3 = c1 ++ c2 /\ f_in_error F3 = true.
Proof. vm_compute. repeat split. Qed.

Print Assumptions C03_chain.
Print Assumptions C03_text_stage_law.
Print Assumptions C03_text_filters.
Print Assumptions C03_html_fold.
Print Assumptions C03_html_stage_law.
Print Assumptions C03_html_stage_law_in_error.
Print Assumptions C03_chunk_invariance.
Print Assumptions C03_lower_ok_ascii.
Print Assumptions C03_html_stage_utf8.
Print Assumptions C03_chunk_invariance_utf8.
