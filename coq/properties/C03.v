(* C03 — body filtering is invariant under chunking of the response stream.
   Statements only; proofs in RIO.ChainProofs.
   What is proved for ALL bodies, filter lists and chunkings: (1) the chain discipline of FilterBodyAction
   (early break on empty data, end cascade) preserves chunk invariance of its stages: if every stage satisfies
   the SPLIT LAW (feeding c1 then c2 = feeding c1 ++ c2: same state, concatenated output) then the whole chain's
   output (filtered chunks ++ end) is that of the single chunk; (2) the text stages satisfy the law, so chains of
   text filters are chunk invariant unconditionally.  For the HTML stage the split law is the restart property of
   the tokenizer-driven filter; it is a HYPOTHESIS of C03_chain (named, not an axiom) and is what the
   correspondence run exercises on the crate (every chunking is compared with the single chunk). *)
Require Import RIO.Base RIO.TokMonad RIO.HtmlTok RIO.BodyText RIO.HtmlFilter RIO.ChainProofs RIO.BodyProofs.
Close Scope N_scope.

(* (1) the chain preserves chunk invariance *)
Theorem C03_chain : forall lower sel ctok fs c cs,
  (forall st, In st (stages_of ctok fs) -> split_law stage (stage_tf lower sel) st) ->
  body_run lower sel ctok fs (c :: cs) = body_run lower sel ctok fs [concat (c :: cs)].
Proof.
  intros lower sel ctok fs c cs H. rewrite !body_run_total.
  apply (run_chunk_invariant stage (stage_tf lower sel) stage_te (fun st => In st (stages_of ctok fs))).
  - exact H.
  - apply Forall_forall. auto.
Qed.

(* (2) text stages satisfy the split law *)
Theorem C03_text_stage_law : forall lower sel t, split_law stage (stage_tf lower sel) (StText t).
Proof. exact text_stage_split. Qed.

(* hence: any list of text filters, any body (valid UTF-8 or not), any chunking incl. empty chunks *)
Theorem C03_text_filters : forall lower sel ctok fs c cs,
  (forall f, In f fs -> match f with BFText _ _ => True | BFHtml _ => False end) ->
  body_run lower sel ctok fs (c :: cs) = body_run lower sel ctok fs [concat (c :: cs)].
Proof.
  intros lower sel ctok fs c cs Hall. apply C03_chain. intros st Hst.
  assert (Hst' : exists t, st = StText t).
  { clear - Hall Hst. induction fs as [|f fs IH]; cbn in Hst; [destruct Hst|].
    destruct f as [a co|h]; [|exfalso; apply (Hall (BFHtml h)); left; reflexivity].
    cbn in Hst. destruct Hst as [<-|Hst]; [eexists; reflexivity|]. apply IH; [intros g Hg; apply Hall; right; exact Hg|exact Hst]. }
  destruct Hst' as [t ->]. apply C03_text_stage_law.
Qed.

(* Non-vacuity of the hypothesis of C03_chain on an HTML stage: a concrete document cut inside a script, inside a
   comment and inside a multi-byte character (the three defects repaired in the crate) *)
Example C03_example_html :
  let lw := map ascii_lower in
  let f := [BFHtml {| hf_kind := HAppendChild; hf_value := [60;105;62]%N; hf_tree := [[104;116;109;108]%N; [98;111;100;121]%N]; hf_css := None |}] in
  let doc := [60;104;116;109;108;62;60;98;111;100;121;62;60;115;99;114;105;112;116;62;34;60;47;98;111;100;121;62;34;60;47;115;99;114;105;112;116;62;60;33;45;45;32;60;47;98;111;100;121;62;32;45;45;62;195;169;60;47;98;111;100;121;62;60;47;104;116;109;108;62]%N in
  forallb (fun k => str_eqb (body_run lw (fun _ _ => false) true f [firstn k doc; skipn k doc]) (body_run lw (fun _ _ => false) true f [doc]))
          (seq 0 (S (length doc))) = true.
Proof. vm_compute. reflexivity. Qed.

Print Assumptions C03_chain.
Print Assumptions C03_text_stage_law.
Print Assumptions C03_text_filters.
