(* C15 — HTML filters edit the targeted element as specified on well-formed documents.

   WHAT IS THEOREM (all closed under the global context, for EVERY lower-casing function, selector engine, action,
   path, selector, inserted value and document tree):
     - C15_token_level: the universal statement at the level of TOKENS.  For every document tree [doc] in the
       domain of C15 ([in_domain]: each element of the path occurs once as an element child of the previous one,
       resp. for replace the last one at least once as element / self-closing tag / void element among siblings; no
       other tag anywhere outside the target's content is named like an element of the path; the target's content
       has no tag named like the target), the stage of RIO.HtmlFilter (built from the model's own on_start_tag /
       on_end_tag / emit, [HtmlTokens.tok_step]) run over the token stream of the tree outputs exactly
       serialize(reference_edit(doc)) and holds nothing back.  The reference edit [Dom.ref_edit] is the generator's
       [edit] (harness/src/c03.rs): C15_reference_is_generator_edit proves that it specialises to the literal
       transcription of the Rust function when the value is one text node and the selector verdict one boolean.
       With a selector, append_child / prepend_child re-tokenise the buffered target; at token level that step is
       the side condition [insert_ok] on the target (part of [in_domain]), discharged on bytes by C15_reinsert.
     - C15_stage_is_token_automaton: for ANY byte string, if the executable tokenisation [tokenize] (the tokenizer
       model driven exactly as the filter loop drives it) yields (toks, tail) then the HTML stage fed with the bytes
       as one chunk, then ended, outputs what the token automaton outputs on toks followed by tail (the filter
       loop's holding back of texts containing '<' and of the last token only delays output).
     - C15_reinsert: append_child / prepend_child (body_append.rs / body_prepend.rs) on a balanced target whose
       serialisation the tokenizer reads as its token stream insert the value before the end tag / after the start tag.
     - C15_tokenizer_token_by_token: the tokenizer model reads a serialised tree as the tree's token stream
       ([tokenizes_as], up to how non-tag bytes are split into text/comment/doctype tokens) as soon as every tag,
       comment and raw-text element of the tree passes an EXECUTABLE check made on its bytes IN ISOLATION ([doc_ok]:
       run alone from the initial state the bytes give exactly the expected token(s), end without having looked
       beyond them and leave no raw-text context) and the texts contain no '<'.  Proof: the tokenizer is prefix-stable
       (HtmlTokProofs.next_stable) and shift-invariant (TokShift.next_shift), texts are scanned by next's main loop.
     - C15_byte_level: body_run on the serialised document = serialize(reference_edit(doc)) for EVERY tree in the domain
       that passes [doc_ok] (with a selector and append/prepend the target must also be balanced).  No hypothesis about
       the tokenizer is left: [doc_ok] is a boolean function of the tree.
     - C15_generated_documents_ok / C15_generated: EVERY tree, of any shape and size, built from the vocabulary of the
       C15 generator (harness/src/c03.rs: FILLER_TAGS, the path html > body > main > article, the marked element, void
       and self-closing names, ATTRS, COMMENTS, SCRIPTS, RAWTEXTS with their element names, the doctype, any text
       without '<') passes [doc_ok] (the ~200 tokens of the vocabulary are checked one by one by the kernel, the trees
       by induction); hence for every such tree in the domain of the property, every action, path, selector, selector
       engine and value: body_run (ASCII lower-casing) on the serialised tree = serialize(reference_edit(tree)).
       This is the universal statement of C15 for one filter, on the model.
     - C15_list_full: several filters compose in order: body_run with a list of HTML filters = the reference edits
       applied in order, when every filter finds the document left by the previous ones in its domain and passing
       [doc_ok] ([list_ok_units]; the documents are not empty), for every lower-casing function that is ASCII
       lower-casing on the ten raw-text element names ([lower_ok]).  The chain hands a stage's held bytes over as a
       second piece; that the HTML stage fed with two pieces ends like on their concatenation (unless that run ends in
       the error state) is RIO.HtmlSplit.hfb_split_law_noerr, the split law of C03 in its conditional form (the
       unconditional law is false).  C15_compose (kept): two total stages on one chunk.
   WHAT IS PARTIAL (theorems with a named HYPOTHESIS), kept because they are more general:
     - C15_list: the same as C15_list_full for ANY lower-casing function, with the two-piece law of the HTML stage
       ([two_piece_law]) as a hypothesis for the stages after the first.
     - C15_byte_level_partial / C15_list_partial (kept, more general than C15_byte_level / C15_list): the same with the
       hypothesis [tokenizes_as doc] (resp. [tokenizes_strict [target]]) instead of [doc_ok].
   WHAT IS TEST (kernel-evaluated by vm_compute, not universal):
     - C15_tok_*: [tokenizes_as] / [tokenizes_strict] evaluated directly on concrete documents covering every node kind;
     - C15_instance, C15_instance_generated: the hypotheses of C15_byte_level_partial resp. C15_generated are satisfiable
       on a generator-shaped document (depth 3, selector, append_child), i.e. the theorems are not vacuous;
     - the earlier examples of the executable model on [doc1] (C15_append_child ... C15_two_filters).
   The correspondence run (crate vs model vs generator's expectation on every generated case) remains what ties the
   model to the crate. *)
Require Import Coq.Strings.String Coq.Strings.Ascii.
Require Import RIO.Base RIO.TokMonad RIO.HtmlTok RIO.BodyText RIO.HtmlFilter RIO.ChainProofs RIO.BodyProofs RIO.CodecChain RIO.C03Run.
Require Import RIO.Dom RIO.HtmlTokens RIO.HtmlBridge RIO.HtmlInsert RIO.HtmlList RIO.HtmlCompose RIO.HtmlGenVocab.
Require RIO.HtmlTokProofs RIO.HtmlListFull.
Require Import RIO.TablesTie RIOGen.ExtTables.
Close Scope N_scope.
Open Scope string_scope.

Fixpoint b (s : string) : list N := match s with EmptyString => [] | String c r => N_of_ascii c :: b r end.

Definition hf (k : hkind) (value : string) (tree : list string) (css : option string) : body_filter :=
  BFHtml {| hf_kind := k; hf_value := b value; hf_tree := map b tree; hf_css := match css with Some c => Some (b c) | None => None end |}.
Definition run1 (sel : str -> str -> bool) (fs : list body_filter) (doc : string) : list N := body_run lower_ascii sel true fs [b doc].

Definition doc1 := "<!DOCTYPE html><HTML lang=en><head><title>t</title></head><body class='a>b'><!-- <main> --><main><p>one</p><br><p>two</P></main><script>if (a</main>) {}</script></body></html>".

(* several filters compose in order: two total stages on one non-empty chunk *)
Theorem C15_compose : forall (stage : Type) tf (s1 s2 : stage) (d : str),
  snd (tf s1 d) <> [] ->
  snd (cf stage tf [s1; s2] d) = snd (tf s2 (snd (tf s1 d))).
Proof.
  intros stage tf s1 s2 d H. cbn [cf]. destruct (tf s1 d) as [s1' o1]. cbn [snd] in *.
  destruct o1 as [|x o1]; [congruence|]. cbn [is_nil]. destruct (tf s2 (x :: o1)) as [s2' o2]. cbn [snd].
  destruct (is_nil o2); reflexivity.
Qed.

Example C15_append_child : run1 (fun _ _ => false) [hf HAppendChild "<i>V</i>" ["html"; "body"; "main"] None] doc1
  = b "<!DOCTYPE html><HTML lang=en><head><title>t</title></head><body class='a>b'><!-- <main> --><main><p>one</p><br><p>two</P><i>V</i></main><script>if (a</main>) {}</script></body></html>".
Proof. vm_compute. reflexivity. Qed.

Example C15_prepend_child : run1 (fun _ _ => false) [hf HPrependChild "<i>V</i>" ["html"; "body"; "main"] None] doc1
  = b "<!DOCTYPE html><HTML lang=en><head><title>t</title></head><body class='a>b'><!-- <main> --><main><i>V</i><p>one</p><br><p>two</P></main><script>if (a</main>) {}</script></body></html>".
Proof. vm_compute. reflexivity. Qed.

(* replace: every sibling occurrence of the target, start tag to end tag *)
Example C15_replace_siblings : run1 (fun _ _ => false) [hf HReplace "<i>V</i>" ["html"; "body"; "main"; "p"] None] doc1
  = b "<!DOCTYPE html><HTML lang=en><head><title>t</title></head><body class='a>b'><!-- <main> --><main><i>V</i><br><i>V</i></main><script>if (a</main>) {}</script></body></html>".
Proof. vm_compute. reflexivity. Qed.

(* replace a void target *)
Example C15_replace_void : run1 (fun _ _ => false) [hf HReplace "<hr/>" ["html"; "body"; "main"; "br"] None] doc1
  = b "<!DOCTYPE html><HTML lang=en><head><title>t</title></head><body class='a>b'><!-- <main> --><main><p>one</p><hr/><p>two</P></main><script>if (a</main>) {}</script></body></html>".
Proof. vm_compute. reflexivity. Qed.

(* selector: append acts only when NO element of the target matches; replace only when one does *)
Example C15_append_selector_matches : run1 (fun _ _ => true) [hf HAppendChild "<i>V</i>" ["html"; "body"; "main"] (Some "p")] doc1 = b doc1.
Proof. vm_compute. reflexivity. Qed.
Example C15_replace_selector_no_match : run1 (fun _ _ => false) [hf HReplace "<i>V</i>" ["html"; "body"; "main"] (Some "em")] doc1 = b doc1.
Proof. vm_compute. reflexivity. Qed.
Example C15_replace_selector_matches : run1 (fun _ _ => true) [hf HReplace "<i>V</i>" ["html"; "body"; "main"] (Some "p")] doc1
  = b "<!DOCTYPE html><HTML lang=en><head><title>t</title></head><body class='a>b'><!-- <main> --><i>V</i><script>if (a</main>) {}</script></body></html>".
Proof. vm_compute. reflexivity. Qed.

(* two filters in order *)
Example C15_two_filters : run1 (fun _ _ => false) [hf HAppendChild "<i>V</i>" ["html"; "body"; "main"] None; hf HPrependChild "<b>W</b>" ["html"; "body"] None] doc1
  = b "<!DOCTYPE html><HTML lang=en><head><title>t</title></head><body class='a>b'><b>W</b><!-- <main> --><main><p>one</p><br><p>two</P><i>V</i></main><script>if (a</main>) {}</script></body></html>".
Proof. vm_compute. reflexivity. Qed.


(* ================================================================== the universal statements (proofs in RIO.HtmlTokens, HtmlBridge, HtmlInsert, HtmlList) *)
Close Scope string_scope.

(* token level: THEOREM *)
Theorem C15_token_level : forall (lower : str -> str) (sel_eval : str -> str -> bool) (act : action) (path : list str)
    (sel : option str) (value doc : list node),
  in_domain lower sel_eval act path sel value doc ->
  exists F' : hfb,
    run_tokens lower sel_eval (hfb_new (mkvis act path sel value)) [] (forest_tokens lower doc)
    = ROk (F', ser_forest (ref_edit lower act value (css sel_eval sel) path doc))
    /\ f_buffers F' = [] /\ f_last F' = [].
Proof. exact RIO.HtmlTokens.C15_token_level. Qed.

(* the reference edit is the generator's edit() *)
Theorem C15_reference_is_generator_edit : forall (lower : str -> str) (act : action) (value : str) (css_m : option bool)
    (path : list str) (n : node),
  forallb (fun p => no_void_named lower p n) path = true ->
  edit lower act [Text value] (match css_m with Some b => Some (fun _ => b) | None => None end) path n
  = [edit_rs lower act value css_m path n].
Proof. exact edit_rs_edit. Qed.

(* the stage on bytes is the token automaton on the tokenisation: THEOREM (any input) *)
Theorem C15_stage_is_token_automaton : forall (lower : str -> str) (sel_eval : str -> str -> bool) (F : hfb) (data : list N)
    (toks : list dtok) (tail : list N) (F' : hfb) (o' : str),
  tokenize lower data = Some (toks, tail) ->
  f_in_error F = false -> f_last F = [] -> f_raw_tag F = [] ->
  run_tokens lower sel_eval F [] (toks ++ [DOther tail]) = ROk (F', o') ->
  exists (F1 : hfb) (o1 : list N), hfb_filter lower sel_eval F data = (F1, o1) /\ o1 ++ held F1 = o' ++ bufs_of F' /\ f_in_error F1 = false.
Proof. exact filter_obs. Qed.

(* append_child / prepend_child by re-tokenisation: THEOREM *)
Theorem C15_reinsert : forall (lower : str -> str) (sel_eval : str -> str -> bool) (act : action) (sel : option str)
    (value : list node) (n : node),
  balanced lower n = true -> tokenizes_strict lower [n] -> insert_ok lower sel_eval act sel value n.
Proof. exact insert_ok_tokens. Qed.

(* bytes, one filter: PARTIAL (hypothesis tokenizes_as, and tokenizes_strict inside in_domain_bytes) *)
Theorem C15_byte_level_partial : forall (lower : str -> str) (sel_eval : str -> str -> bool) (act : action) (path : list str)
    (sel : option str) (value doc : list node),
  in_domain_bytes lower act path sel doc ->
  tokenizes_as lower doc ->
  body_run lower sel_eval true [mk_filter act path sel value] [ser_forest doc]
  = ser_forest (ref_edit lower act value (css sel_eval sel) path doc).
Proof. exact RIO.HtmlInsert.C15_byte_level_partial. Qed.

(* bytes, several filters in order: PARTIAL (the same hypotheses per filter, and the two-piece law of the HTML stage,
   which is the first conclusion of RIO.HtmlSplit.hfb_split_law_noerr) *)
Theorem C15_list_partial : forall (lower : str -> str) (sel_eval : str -> str -> bool) (fs : list hfilter) (doc : list node),
  list_ok lower sel_eval fs doc ->
  (forall f, In f (tl fs) -> two_piece_law lower sel_eval (hfb_new (mkvis (hf_act f) (hf_path f) (hf_sel f) (hf_val f)))) ->
  body_run lower sel_eval true (map to_body fs) [ser_forest doc]
  = ser_forest (ref_edit_list lower (map (to_ref sel_eval) fs) doc).
Proof. exact RIO.HtmlList.C15_list_partial. Qed.

(* the tokenizer reads a serialised tree token by token: THEOREM *)
Theorem C15_tokenizer_token_by_token : forall (lower : str -> str) (doc : list node),
  doc_ok lower doc = true -> tokenizes_as lower doc.
Proof. exact tokenizes_as_units. Qed.

(* bytes, one filter, hypotheses = the domain and the executable token-by-token check: THEOREM *)
Theorem C15_byte_level : forall (lower : str -> str) (sel_eval : str -> str -> bool) (act : action) (path : list str)
    (sel : option str) (value doc : list node),
  in_domain_units lower act path sel doc ->
  doc_ok lower doc = true ->
  body_run lower sel_eval true [mk_filter act path sel value] [ser_forest doc]
  = ser_forest (ref_edit lower act value (css sel_eval sel) path doc).
Proof. exact RIO.HtmlCompose.C15_byte_level. Qed.

(* every tree over the generator's vocabulary passes the check: THEOREM *)
Theorem C15_generated_documents_ok : forall doc : list node, forallb gen_node doc = true -> doc_ok lower_ascii doc = true.
Proof. exact gen_doc_ok. Qed.

(* the universal statement of C15 for one filter, for every generated tree: THEOREM *)
Theorem C15_generated : forall (sel_eval : str -> str -> bool) (act : action) (path : list str) (sel : option str)
    (value doc : list node),
  forallb gen_node doc = true ->
  spine lower_ascii act path (fun _ => True) path doc ->
  body_run lower_ascii sel_eval true [mk_filter act path sel value] [ser_forest doc]
  = ser_forest (ref_edit lower_ascii act value (css sel_eval sel) path doc).
Proof. exact RIO.HtmlGenVocab.C15_generated. Qed.

(* several filters in order, hypotheses = the domains, the checks, and the two-piece law of the HTML stage: PARTIAL *)
Theorem C15_list : forall (lower : str -> str) (sel_eval : str -> str -> bool) (fs : list hfilter) (doc : list node),
  list_ok_units lower sel_eval fs doc ->
  (forall f, In f (tl fs) -> two_piece_law lower sel_eval (hfb_new (mkvis (hf_act f) (hf_path f) (hf_sel f) (hf_val f)))) ->
  body_run lower sel_eval true (map to_body fs) [ser_forest doc]
  = ser_forest (ref_edit_list lower (map (to_ref sel_eval) fs) doc).
Proof. exact RIO.HtmlCompose.C15_list. Qed.

(* several filters in order, the two-piece law discharged by RIO.HtmlSplit: THEOREM *)
Theorem C15_list_full : forall (lower : str -> str) (sel_eval : str -> str -> bool) (fs : list hfilter) (doc : list node),
  RIO.HtmlTokProofs.lower_ok lower ->
  list_ok_units lower sel_eval fs doc ->
  body_run lower sel_eval true (map to_body fs) [ser_forest doc]
  = ser_forest (ref_edit_list lower (map (to_ref sel_eval) fs) doc).
Proof. exact RIO.HtmlListFull.C15_list_full. Qed.

(* ================================================================== TESTS of the hypotheses (vm_compute) *)
Open Scope string_scope.
Definition E t a ch := Elem (b t) (b a) ch.
Definition Vd t a := Void (b t) (b a).
Definition Sc t a := SelfClosing (b t) (b a).
Definition T s := Text (b s).
Definition Cm s := Comment (b s).
Definition Rw t s := Raw (b t) (b s).
Ltac tok_as := unfold tokenizes_as; eexists; eexists; split; vm_compute; reflexivity.
Ltac tok_strict := unfold tokenizes_strict; eexists; split; vm_compute; reflexivity.

Example C15_tok_elements : tokenizes_as lower_ascii [E "html" "" [E "body" "" [E "p" "" [T "one"]; E "p" "" []]]].
Proof. tok_as. Qed.
Example C15_tok_attributes : tokenizes_as lower_ascii
  [E "div" " class=""a""" [E "p" " id='x y'" []; E "p" " data-k=v" [T "t"]; E "span" " title=""a>b""" []; E "li" " hidden" []; E "em" " a=""1"" b='2' c=3" [T "x"]]].
Proof. tok_as. Qed.
Example C15_tok_void : tokenizes_as lower_ascii [E "main" "" [Vd "br" ""; Vd "img" " title=""a>b"""; T "x"; Vd "meta" " hidden"; Vd "hr" " id='x y'"; Vd "BR" ""]].
Proof. tok_as. Qed.
Example C15_tok_self_closing : tokenizes_as lower_ascii [E "main" "" [Sc "x-a" ""; Sc "use" " class=""a"""; Sc "main" " data-k=v"; Sc "br" ""]].
Proof. tok_as. Qed.
Example C15_tok_comments : tokenizes_as lower_ascii [E "body" "" [Cm " c "; Cm "</body>"; T "t"; Cm "<p>"; Cm " a -- b "; Cm ""]].
Proof. tok_as. Qed.
Example C15_tok_script_style : tokenizes_as lower_ascii
  [E "head" "" [Rw "script" "var a = 1;"; Rw "script" "if (a < b) { x(); }"; Rw "script" "document.write('</p><body>');"; Rw "style" "<!-- x -->"; Rw "style" "a<b"]].
Proof. tok_as. Qed.
Example C15_tok_raw_text : tokenizes_as lower_ascii
  [E "head" "" [Rw "title" "a </head> b"; Rw "textarea" "x </body> y <p>"; Rw "noscript" "</main></article>"; Rw "xmp" "<b>bold</b> &amp; </html>"; Rw "iframe" "plain"]].
Proof. tok_as. Qed.
Example C15_tok_texts : tokenizes_as lower_ascii
  [E "p" "" [T "hello"; T " "; T "a &amp; b"; E "i" "" [T "x > y"]; Text [99; 97; 102; 195; 169; 32; 240; 159; 164; 152]%N; T "line
break"; T "1 &lt; 2"]].
Proof. tok_as. Qed.
Example C15_tok_doctype_upper : tokenizes_as lower_ascii [T "<!DOCTYPE html>"; E "HTML" " lang=en" [E "P" "" [T "t"]; E "DIV2" "" []]].
Proof. tok_as. Qed.
Example C15_tok_ends_in_text : tokenizes_as lower_ascii [E "html" "" []; T "
"].
Proof. tok_as. Qed.
Example C15_tok_ends_in_lt_text : tokenizes_as lower_ascii [E "p" "" []; T "a<b"].
Proof. tok_as. Qed.
Example C15_tok_siblings_depth4 : tokenizes_as lower_ascii
  [E "html" "" [T " "; E "body" " class=""a""" [Cm "<p>"; E "main" "" [E "article" "" [T "1"]; Vd "hr" ""; Sc "article" " hidden"; E "article" " id='x y'" [E "em" "" []]]; T "x"]; Rw "style" "a<b"]].
Proof. tok_as. Qed.

(* a generator-shaped document: fillers of every kind around html > body > main *)
Definition fill : list node :=
  [T "hello"; T " "; Cm " </body> "; Rw "script" "if (a<b) x('</p><body>');"; Vd "br" " class=""a"""; Sc "x-a" " id='x y'";
   E "span" " title=""a>b""" [T "x > y"; E "P" "" []]; Rw "title" "a </head> b"].
Definition tgt : node := E "main" " id=m" (fill ++ [E "em" " class=""mark""" [T "m"]] ++ fill)%list.
Definition doc3 : list node := [T "<!DOCTYPE html>"; E "HTML" " lang=en" (fill ++ [E "body" "" (fill ++ [tgt] ++ fill)%list] ++ fill)%list; T "
"].
Example C15_tok_generator_shaped : tokenizes_as lower_ascii doc3.
Proof. tok_as. Qed.
Example C15_tok_target_strict : tokenizes_strict lower_ascii [tgt].
Proof. tok_strict. Qed.

(* the hypotheses of C15_byte_level_partial are satisfiable: append_child with a selector at depth 3 *)
Example C15_instance : forall sel_eval,
  body_run lower_ascii sel_eval true [mk_filter AAppend [b "html"; b "body"; b "main"] (Some (b "em.mark")) [E "b" "" [T "V"]]] [ser_forest doc3]
  = ser_forest (ref_edit lower_ascii AAppend [E "b" "" [T "V"]] (css sel_eval (Some (b "em.mark"))) [b "html"; b "body"; b "main"] doc3).
Proof.
  intros sel_eval. apply C15_byte_level_partial; [|exact C15_tok_generator_shaped].
  unfold in_domain_bytes. cbn [spine].
  exists [T "<!DOCTYPE html>"], (b "HTML"), (b " lang=en"), (fill ++ [E "body" "" (fill ++ [tgt] ++ fill)%list] ++ fill)%list, [T "
"].
  split; [reflexivity|]. split; [reflexivity|]. split; [reflexivity|]. split; [reflexivity|]. split; [reflexivity|].
  exists fill, (b "body"), (b ""), (fill ++ [tgt] ++ fill)%list, fill.
  split; [reflexivity|]. split; [reflexivity|]. split; [reflexivity|]. split; [vm_compute; reflexivity|]. split; [vm_compute; reflexivity|].
  exists fill, (b "main"), (b " id=m"), (fill ++ [E "em" " class=""mark""" [T "m"]] ++ fill)%list, fill.
  split; [reflexivity|]. split; [split; [reflexivity|split; [reflexivity|vm_compute; reflexivity]]|].
  split; [vm_compute; reflexivity|]. split; [vm_compute; reflexivity|].
  intros _ _. split; [vm_compute; reflexivity|exact C15_tok_target_strict].
Qed.

(* the hypotheses of C15_generated are satisfiable: a generated-vocabulary document, replace with sibling targets *)
Definition gfill : list node :=
  [T "hello"; T " "; Cm "</body>"; Rw "script" "document.write('</p><body>');"; Vd "br" " class=""a"""; Sc "x-a" " id='x y'";
   E "span" " title=""a>b""" [T "x > y"; E "P" "" []]; Rw "title" "a </head> b"].
Definition gdoc : list node :=
  [T "<!DOCTYPE html>"; E "html" " hidden" (gfill ++ [E "body" "" (gfill ++ [E "main" " id='x y'" gfill; T " "; Sc "main" " data-k=v"; E "main" "" []] ++ gfill)%list] ++ gfill)%list; T "
"].
Example C15_instance_generated : forall sel_eval,
  body_run lower_ascii sel_eval true [mk_filter AReplace [b "html"; b "body"; b "main"] (Some (b "em.mark")) [E "b" "" [T "V"]]] [ser_forest gdoc]
  = ser_forest (ref_edit lower_ascii AReplace [E "b" "" [T "V"]] (css sel_eval (Some (b "em.mark"))) [b "html"; b "body"; b "main"] gdoc).
Proof.
  intros sel_eval. apply C15_generated; [vm_compute; reflexivity|].
  cbn [spine].
  exists [T "<!DOCTYPE html>"], (b "html"), (b " hidden"), (gfill ++ [E "body" "" (gfill ++ [E "main" " id='x y'" gfill; T " "; Sc "main" " data-k=v"; E "main" "" []] ++ gfill)%list] ++ gfill)%list, [T "
"].
  split; [reflexivity|]. split; [reflexivity|]. split; [reflexivity|]. split; [reflexivity|]. split; [reflexivity|].
  exists gfill, (b "body"), (b ""), (gfill ++ [E "main" " id='x y'" gfill; T " "; Sc "main" " data-k=v"; E "main" "" []] ++ gfill)%list, gfill.
  split; [reflexivity|]. split; [reflexivity|]. split; [reflexivity|]. split; [vm_compute; reflexivity|]. split; [vm_compute; reflexivity|].
  split.
  - repeat (apply Forall_cons || apply Forall_nil);
      first [ left; vm_compute; reflexivity
            | right; cbn [target]; first [ reflexivity | split; [reflexivity|split; [reflexivity|vm_compute; reflexivity]] ] ].
  - apply Exists_exists. exists (Sc "main" " data-k=v"). split; [|reflexivity].
    unfold gfill. cbn [app In]. tauto.
Qed.


(* ---- TIE TO THE SOURCE (translator): VOID_ELEMENTS (src/filter/html_filter_body.rs) and the action names of
   HtmlBodyVisitor::new (src/filter/html_body_action/mod.rs) are lifted on every run; the model's is_void decides exactly
   the names the source lists now, and the three visitors are bound to the three action names the harness decodes. *)
Theorem C15_tables_void_elements : forall name : str, mem_str name ext_void_elements = is_void name.
Proof. unfold is_void. apply same_names_mem. vm_compute. reflexivity. Qed.

Theorem C15_tables_html_visitors : ext_html_visitors = model_html_visitors.
Proof. vm_compute. reflexivity. Qed.

Print Assumptions C15_compose.
Print Assumptions C15_token_level.
Print Assumptions C15_reference_is_generator_edit.
Print Assumptions C15_stage_is_token_automaton.
Print Assumptions C15_reinsert.
Print Assumptions C15_byte_level_partial.
Print Assumptions C15_list_partial.
Print Assumptions C15_instance.
Print Assumptions C15_tokenizer_token_by_token.
Print Assumptions C15_byte_level.
Print Assumptions C15_generated_documents_ok.
Print Assumptions C15_generated.
Print Assumptions C15_list.
Print Assumptions C15_instance_generated.
Print Assumptions C15_list_full.
Print Assumptions C15_tables_void_elements.
Print Assumptions C15_tables_html_visitors.
