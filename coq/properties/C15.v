(* C15 — HTML filters edit the targeted element as specified on well-formed documents.
   The universal statement (for every generated DOM tree: out = serialize(reference_edit(d))) is NOT proved: it is
   decided by the correspondence run, where the reference edit is computed on the generator's tree and compared with
   the crate AND with the model of RIO.HtmlFilter (so a disagreement is localised).  What is proved here:
     - the chain discipline composes several filters in order (C15_compose: the chain output of two total stages on
       one chunk is the second stage applied to the first stage's output, then the ends cascade);
     - on the executable model, the three actions with and without selector on a document exercising every clause of
       the statement (sibling targets, void and self-closing targets, nested path, comments, upper-case tags): these are
       TESTS evaluated by the kernel (vm_compute), not universal theorems. *)
Require Import Coq.Strings.String Coq.Strings.Ascii.
Require Import RIO.Base RIO.TokMonad RIO.HtmlTok RIO.BodyText RIO.HtmlFilter RIO.ChainProofs RIO.BodyProofs RIO.CodecChain RIO.C03Run.
Close Scope N_scope.
Open Scope string_scope.

Fixpoint b (s : string) : list N := match s with EmptyString => [] | String c r => N_of_ascii c :: b r end.

Definition hf (k : hkind) (value : string) (tree : list string) (css : option string) : body_filter :=
  BFHtml {| hf_kind := k; hf_value := b value; hf_tree := map b tree; hf_css := match css with Some c => Some (b c) | None => None end |}.
Definition run1 (sel : str -> str -> bool) (fs : list body_filter) (doc : string) : list N := body_run lower_ascii sel true fs [b doc].

Definition doc1 := "<!DOCTYPE html><HTML lang=en><head><title>t</title></head><body class='a>b'><!-- <main> --><main><p>one</p><br><p>two</P></main><script>if (a</main>) {}</script></body></html>".

(* several filters compose in order: two total stages on one non-empty chunk *)
Theorem C15_compose : forall (stage : Type) tf (s1 s2 : stage) (d : str),
  snd (tf s1 d) <> [] ->
  snd (cf stage tf [s1; s2] d) = snd (tf s2 (snd (tf s1 d))).
Proof.
  intros stage tf s1 s2 d H. cbn [cf]. destruct (tf s1 d) as [s1' o1]. cbn [snd] in *.
  destruct o1 as [|x o1]; [congruence|]. cbn [is_nil]. destruct (tf s2 (x :: o1)) as [s2' o2]. cbn [snd].
  destruct (is_nil o2); reflexivity.
Qed.

Example C15_append_child : run1 (fun _ _ => false) [hf HAppendChild "<i>V</i>" ["html"; "body"; "main"] None] doc1
  = b "<!DOCTYPE html><HTML lang=en><head><title>t</title></head><body class='a>b'><!-- <main> --><main><p>one</p><br><p>two</P><i>V</i></main><script>if (a</main>) {}</script></body></html>".
Proof. vm_compute. reflexivity. Qed.

Example C15_prepend_child : run1 (fun _ _ => false) [hf HPrependChild "<i>V</i>" ["html"; "body"; "main"] None] doc1
  = b "<!DOCTYPE html><HTML lang=en><head><title>t</title></head><body class='a>b'><!-- <main> --><main><i>V</i><p>one</p><br><p>two</P></main><script>if (a</main>) {}</script></body></html>".
Proof. vm_compute. reflexivity. Qed.

(* replace: every sibling occurrence of the target, start tag to end tag *)
Example C15_replace_siblings : run1 (fun _ _ => false) [hf HReplace "<i>V</i>" ["html"; "body"; "main"; "p"] None] doc1
  = b "<!DOCTYPE html><HTML lang=en><head><title>t</title></head><body class='a>b'><!-- <main> --><main><i>V</i><br><i>V</i></main><script>if (a</main>) {}</script></body></html>".
Proof. vm_compute. reflexivity. Qed.

(* replace a void target *)
Example C15_replace_void : run1 (fun _ _ => false) [hf HReplace "<hr/>" ["html"; "body"; "main"; "br"] None] doc1
  = b "<!DOCTYPE html><HTML lang=en><head><title>t</title></head><body class='a>b'><!-- <main> --><main><p>one</p><hr/><p>two</P></main><script>if (a</main>) {}</script></body></html>".
Proof. vm_compute. reflexivity. Qed.

(* selector: append acts only when NO element of the target matches; replace only when one does *)
Example C15_append_selector_matches : run1 (fun _ _ => true) [hf HAppendChild "<i>V</i>" ["html"; "body"; "main"] (Some "p")] doc1 = b doc1.
Proof. vm_compute. reflexivity. Qed.
Example C15_replace_selector_no_match : run1 (fun _ _ => false) [hf HReplace "<i>V</i>" ["html"; "body"; "main"] (Some "em")] doc1 = b doc1.
Proof. vm_compute. reflexivity. Qed.
Example C15_replace_selector_matches : run1 (fun _ _ => true) [hf HReplace "<i>V</i>" ["html"; "body"; "main"] (Some "p")] doc1
  = b "<!DOCTYPE html><HTML lang=en><head><title>t</title></head><body class='a>b'><!-- <main> --><i>V</i><script>if (a</main>) {}</script></body></html>".
Proof. vm_compute. reflexivity. Qed.

(* two filters in order *)
Example C15_two_filters : run1 (fun _ _ => false) [hf HAppendChild "<i>V</i>" ["html"; "body"; "main"] None; hf HPrependChild "<b>W</b>" ["html"; "body"] None] doc1
  = b "<!DOCTYPE html><HTML lang=en><head><title>t</title></head><body class='a>b'><b>W</b><!-- <main> --><main><p>one</p><br><p>two</P><i>V</i></main><script>if (a</main>) {}</script></body></html>".
Proof. vm_compute. reflexivity. Qed.

Print Assumptions C15_compose.
