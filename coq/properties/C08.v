(* C08 — the regex prefix tree answers exactly like a linear scan of its patterns.
   Statements only; proofs in RIO.TreeProofs (abstract prefix structure) and RIO.TreeInst
   (instantiation with prefix.rs and the token shape of rule regexes).

   The regex engine is a parameter [eng]; the two facts assumed of it are explicit premises:
   [engine_dotstar] (".*" matches every string) and [engine_prefix_law] (if ^q$ matches s and p is a
   token-prefix of q then ^p matches s).  [C08_compositional_engine] shows the second holds for
   every engine that is compositional over tokens. *)
Require Import RIO.Base RIO.Prefix RIO.RegexSem RIO.Tree RIO.TreeProofs RIO.TreeInst RIO.TreeReplace.
Close Scope N_scope.

Definition ctree (V : Type) (valid : bool -> pat -> bool) (ic : bool) (ops : list (op V)) : item V :=
  tree_of V cp_c take_c clen_c valid ic ops.

(* lookup = linear scan over the live entries, as multisets *)
Theorem C08_find : forall (V : Type) eng valid, engine_dotstar eng -> engine_prefix_law eng ->
  forall ic (ops : list (op V)) s, hist_ok V shape_c [] ops ->
  Permutation (find V eng (ctree V valid ic ops) s)
              (map (value_of V) (filter (fun e => ML eng ic (fst e) s) (live V ops))).
Proof.
  intros V eng valid Hd Hp. exact (hist_find V cp_c take_c clen_c eng valid shape_c tpre_c tpre_trans_c cut_l_c cut_r_c cut_l'_c cut_r'_c tpre_shape_l_c cp_pre_c Hd Hp).
Qed.

(* reported size = number of stored values *)
Theorem C08_len : forall (V : Type) valid ic (ops : list (op V)), hist_ok V shape_c [] ops ->
  len V (ctree V valid ic ops) = length (live V ops).
Proof.
  intros V valid. exact (hist_len V cp_c take_c clen_c valid shape_c tpre_c tpre_trans_c cut_l_c cut_r_c cut_l'_c cut_r'_c tpre_shape_l_c cp_pre_c).
Qed.

(* lookup by pattern returns the values stored under that pattern *)
Theorem C08_get : forall (V : Type) valid ic (ops : list (op V)) re, hist_ok V shape_c [] ops ->
  Permutation (get V (ctree V valid ic ops) re)
              (map (value_of V) (filter (fun e => pat_eqb (fst e) re) (live V ops))).
Proof.
  intros V valid. exact (hist_get V cp_c take_c clen_c valid shape_c tpre_c tpre_trans_c cut_l_c cut_r_c cut_l'_c cut_r'_c tpre_shape_l_c cp_pre_c tpre_starts_c).
Qed.

(* iteration yields every stored value *)
Theorem C08_iter : forall (V : Type) valid ic (ops : list (op V)), hist_ok V shape_c [] ops ->
  Permutation (all_values V (ctree V valid ic ops)) (map (value_of V) (live V ops)).
Proof.
  intros V valid. exact (hist_iter V cp_c take_c clen_c valid shape_c tpre_c tpre_trans_c cut_l_c cut_r_c cut_l'_c cut_r'_c tpre_shape_l_c cp_pre_c).
Qed.

(* a removal returns the stored value, None exactly when the id is not live *)
Theorem C08_remove_returns : forall (V : Type) valid ic (ops : list (op V)) k, hist_ok V shape_c [] ops ->
  match snd (remove V (ctree V valid ic ops) k) with
  | Some v => exists p, In (p, (k, v)) (live V ops)
  | None => ~ In k (map (id_of V) (live V ops))
  end.
Proof.
  intros V valid. exact (hist_remove_returns V cp_c take_c clen_c valid shape_c tpre_c tpre_trans_c cut_l_c cut_r_c cut_l'_c cut_r'_c tpre_shape_l_c cp_pre_c).
Qed.

(* the cut rule of prefix.rs only ever cuts on a common token boundary *)
Theorem C08_cut_aligned : forall p q, forallb tok_ok p = true -> forallb tok_ok q = true ->
  exists k, common_prefix_char_size (render p) (render q) = length (render (firstn k p)) /\ firstn k p = firstn k q.
Proof. exact common_prefix_token_aligned. Qed.

(* any engine that is compositional over tokens satisfies the assumed prefix law *)
Theorem C08_compositional_engine : forall eng G fold,
  (forall ic ts s, toks_ok ts -> ts <> [] -> eng ic (leaf_regex (render ts)) s = full_match G fold ic ts s) ->
  (forall ic ts s, toks_ok ts -> ts <> [] -> eng ic (c_caret :: render ts) s = prefix_match G fold ic ts s) ->
  (forall ic s, eng ic (leaf_regex []) s = true -> s = []) ->
  engine_prefix_law eng.
Proof. exact compositional_engine_prefix_law. Qed.

(* Non-vacuity: an admissible history with shared prefixes, a removal, a retain and a cache step *)
Definition ex_p1 : list tok := [TLit 47%N; TLit 97%N; TGrp [91;48;45;57;93;43]%N].              (* /a([0-9]+) *)
Definition ex_p2 : list tok := [TLit 47%N; TLit 97%N; TGrp [91;48;45;57;93;43]%N; TLit 46%N].   (* /a([0-9]+)\. *)
Definition ex_p3 : list tok := [TLit 47%N; TGrp [99;97;116;124;100;111;103]%N].                 (* /(cat|dog) *)
Example C08_example_hist_ok :
  hist_ok N shape_c [] [OInsert N (render ex_p1) [1]%N 1%N; OInsert N (render ex_p2) [2]%N 2%N; OInsert N (render ex_p3) [3]%N 3%N;
                        ORemove N [1]%N; OCache N 2%N None; ORetain N (fun k v => Some v); OInsert N (render ex_p1) [1]%N 4%N].
Proof.
  assert (H1 : shape_c (render ex_p1)) by (exists ex_p1; split; reflexivity).
  assert (H2 : shape_c (render ex_p2)) by (exists ex_p2; split; reflexivity).
  assert (H3 : shape_c (render ex_p3)) by (exists ex_p3; split; reflexivity).
  simpl. repeat split; auto; try discriminate; simpl; intuition discriminate.
Qed.

(* ---- storing a value under an existing (pattern, id) replaces it (RIO.TreeReplace) ----
   [hist_ok_r] relaxes [hist_ok]: an insertion is also admissible when its id is live under the SAME
   pattern; in the flat model [live_r] such an insertion rewrites that entry in place
   ([replace_entry]).  Every [hist_ok] history is [hist_ok_r] with the same flat model
   ([C08_relaxed_extends]). *)
Theorem C08_insert_replaces : forall (V : Type) eng valid, engine_dotstar eng -> engine_prefix_law eng ->
  forall ic (ops : list (op V)) p k v v0 s, hist_ok_r V shape_c [] ops -> In (p, (k, v0)) (live_r V ops) ->
  let t := ctree V valid ic ops in
  let t' := insert V cp_c take_c clen_c t p k v in
  let L' := replace_entry V p k v (live_r V ops) in
  Permutation (entries V t') L'
  /\ len V t' = len V t
  /\ Permutation (find V eng t' s) (map (value_of V) (filter (fun e => ML eng ic (fst e) s) L'))
  /\ Permutation (get V t' p) (map (value_of V) (filter (fun e => pat_eqb (fst e) p) L'))
  /\ In v (get V t' p)
  /\ (forall e, In e (entries V t') -> id_of V e = k -> e = (p, (k, v))).
Proof. intros V eng valid Hd Hp. exact (hist_insert_replaces_c V valid eng Hd Hp). Qed.

(* the tree-level statement: under the invariant and the routing structure of reachable trees, with
   unique ids, inserting a stored (pattern, id) rewrites exactly that entry *)
Theorem C08_insert_entries_existing : forall (V : Type) tic (it : item V) re k v v0,
  inv V shape_c tpre_c tic it -> rs_c V it -> NoDup (eids V it) -> In (re, (k, v0)) (entries V it) ->
  Permutation (entries V (insert V cp_c take_c clen_c it re k v)) (replace_entry V re k v (entries V it))
  /\ inv V shape_c tpre_c tic (insert V cp_c take_c clen_c it re k v)
  /\ rs_c V (insert V cp_c take_c clen_c it re k v)
  /\ NoDup (eids V (insert V cp_c take_c clen_c it re k v))
  /\ len V (insert V cp_c take_c clen_c it re k v) = len V it.
Proof. intros V. exact (insert_entries_existing_c V (fun _ _ => true)). Qed.

Theorem C08_find_r : forall (V : Type) eng valid, engine_dotstar eng -> engine_prefix_law eng ->
  forall ic (ops : list (op V)) s, hist_ok_r V shape_c [] ops ->
  Permutation (find V eng (ctree V valid ic ops) s)
              (map (value_of V) (filter (fun e => ML eng ic (fst e) s) (live_r V ops))).
Proof. intros V eng valid Hd Hp. exact (hist_find_r_c V valid eng Hd Hp). Qed.

Theorem C08_len_r : forall (V : Type) valid ic (ops : list (op V)), hist_ok_r V shape_c [] ops ->
  len V (ctree V valid ic ops) = length (live_r V ops).
Proof. intros V valid. exact (hist_len_r_c V valid). Qed.

Theorem C08_get_r : forall (V : Type) valid ic (ops : list (op V)) re, hist_ok_r V shape_c [] ops ->
  Permutation (get V (ctree V valid ic ops) re)
              (map (value_of V) (filter (fun e => pat_eqb (fst e) re) (live_r V ops))).
Proof. intros V valid. exact (hist_get_r_c V valid). Qed.

Theorem C08_iter_r : forall (V : Type) valid ic (ops : list (op V)), hist_ok_r V shape_c [] ops ->
  Permutation (all_values V (ctree V valid ic ops)) (map (value_of V) (live_r V ops)).
Proof. intros V valid. exact (hist_iter_r_c V valid). Qed.

(* the relaxed admissibility extends the strict one, with the same flat model *)
Theorem C08_relaxed_extends : forall (V : Type) (ops : list (op V)), hist_ok V shape_c [] ops ->
  hist_ok_r V shape_c [] ops /\ live_r V ops = live V ops.
Proof. intros V ops H. exact (hist_ok_relax V shape_c ops [] H). Qed.

(* prefix.rs: the computed size is the length of the LONGEST common token prefix *)
Theorem C08_cut_longest : forall p q, forallb tok_ok p = true -> forallb tok_ok q = true ->
  common_prefix_char_size (render p) (render q) = length (render (tlcp p q)).
Proof. exact cp_c_tlcp. Qed.

(* Non-vacuity of the relaxed hypothesis: a history that stores twice under a live (pattern, id)
   (at a leaf below a split node, and after a removal / cache / retain), and what the tree then holds *)
Definition ex_hist_r : list (op N) :=
  [OInsert N (render ex_p1) [1]%N 1%N; OInsert N (render ex_p2) [2]%N 2%N; OInsert N (render ex_p3) [3]%N 3%N;
   OInsert N (render ex_p1) [1]%N 10%N;
   ORemove N [2]%N; OCache N 2%N None; ORetain N (fun k v => Some v);
   OInsert N (render ex_p3) [3]%N 30%N; OInsert N (render ex_p2) [2]%N 5%N; OInsert N (render ex_p2) [2]%N 50%N].
Example C08_example_hist_ok_r : hist_ok_r N shape_c [] ex_hist_r.
Proof.
  assert (H1 : shape_c (render ex_p1)) by (exists ex_p1; split; reflexivity).
  assert (H2 : shape_c (render ex_p2)) by (exists ex_p2; split; reflexivity).
  assert (H3 : shape_c (render ex_p3)) by (exists ex_p3; split; reflexivity).
  unfold ex_hist_r. cbn [hist_ok_r]. unfold ins_ok_r.
  repeat match goal with
         | |- _ /\ _ => split
         | |- True => exact I
         | |- shape_c _ => assumption
         | |- _ <> [] => discriminate
         end.
  - left. vm_compute. tauto.
  - left. vm_compute. intuition discriminate.
  - left. vm_compute. intuition discriminate.
  - right. exists 1%N. vm_compute. tauto.
  - right. exists 3%N. vm_compute. tauto.
  - left. vm_compute. intuition discriminate.
  - right. exists 5%N. vm_compute. tauto.
Qed.
Example C08_example_replaced :
  let t := ctree N (fun _ _ => true) false ex_hist_r in
  (len N t, get N t (render ex_p1), get N t (render ex_p2), get N t (render ex_p3)) = (3, [10%N], [50%N], [30%N])
  /\ live_r N ex_hist_r = [(render ex_p1, ([1]%N, 10%N)); (render ex_p3, ([3]%N, 30%N)); (render ex_p2, ([2]%N, 50%N))].
Proof. split; vm_compute; reflexivity. Qed.

Print Assumptions C08_find.
Print Assumptions C08_len.
Print Assumptions C08_get.
Print Assumptions C08_iter.
Print Assumptions C08_remove_returns.
Print Assumptions C08_cut_aligned.
Print Assumptions C08_compositional_engine.
Print Assumptions C08_insert_replaces.
Print Assumptions C08_insert_entries_existing.
Print Assumptions C08_find_r.
Print Assumptions C08_len_r.
Print Assumptions C08_get_r.
Print Assumptions C08_iter_r.
Print Assumptions C08_relaxed_extends.
Print Assumptions C08_cut_longest.
