(* C16 — the HTML tokenizer (src/html/mod.rs) is lossless and total.
   This file pins the statements (proofs: RIO.TokLogic, RIO.HtmlTokProofs) and executable sanity checks of
   the model (RIO.HtmlTok through RIO.C16Run). *)
Require Import Coq.Strings.String Coq.Strings.Ascii.
Require Import RIO.Base RIO.TokMonad RIO.HtmlTok RIO.C16Run RIO.TokLogic RIO.HtmlTokProofs.
Require Import RIO.TablesTie RIOGen.ExtTables.

Definition b (s : String.string) : list N := map N_of_ascii (list_ascii_of_string s).

(* the byte-string literals of HtmlTok.v are the literals of the source *)
Example literals_ok :
  [s_iframe; s_noembed; s_noframes; s_noscript; s_plaintext; s_script; s_SCRIPT; s_style; s_title; s_textarea;
   s_xmp; s_DOCTYPE; s_CDATA]
  = map b ["iframe"; "noembed"; "noframes"; "noscript"; "plaintext"; "script"; "SCRIPT"; "style"; "title"; "textarea";
           "xmp"; "DOCTYPE"; "[CDATA["]%string.
Proof. vm_compute. reflexivity. Qed.

Example bytes_ok :
  [LT; GT; SLASH; BANG; QMARK; DASH; EQUALS; DQUOTE; SQUOTE; RBRACKET] = b "<>/!?-=""']"%string.
Proof. vm_compute. reflexivity. Qed.

(* (kind, raw start, raw end) of every token, then the raw span of the ErrorToken *)
Definition spans (input : str) : outcome (list (N * N * N) * (N * N)) :=
  match tokens_of input with
  | Ok (toks, fin) => Ok (map (fun t => (o_kind t, o_rs t, o_re t)) toks, (f_ers fin, f_ere fin))
  | Panic s => Panic s
  | OutOfFuel => OutOfFuel
  end.

(* kinds: 2 Text, 3 StartTag, 4 EndTag, 5 SelfClosingTag, 6 Comment, 7 Doctype *)
Example ex_mixed :
  spans (b "<a b=""c"">x</a><!--y--><script>1<2</script>"%string)
  = Ok ([(3, 0, 9); (2, 9, 10); (4, 10, 14); (6, 14, 22); (3, 22, 30); (2, 30, 33); (4, 33, 42)], (42, 42))%N.
Proof. vm_compute. reflexivity. Qed.

Example ex_mixed_first_token :
  match tokens_of (b "<a b=""c"">x</a><!--y--><script>1<2</script>"%string) with
  | Ok (t :: _, _) => Some (o_name t, o_attrs t)
  | _ => None
  end = Some (NS (b "a"%string) true, [AS (b "b"%string) (b "c"%string) false; AN]).
Proof. vm_compute. reflexivity. Qed.

Example ex_doctype_selfclosing_cdata :
  spans (b "<!DOCTYPE html><br/><![CDATA[x]]]>y"%string)
  = Ok ([(7, 0, 15); (5, 15, 20); (2, 20, 34); (2, 34, 35)], (35, 35))%N.
Proof. vm_compute. reflexivity. Qed.

(* EOF inside a tag: no token, the ErrorToken carries the bytes in its raw span *)
Example ex_eof_in_tag : spans (b "x<a b"%string) = Ok ([(2, 0, 1)], (1, 5))%N.
Proof. vm_compute. reflexivity. Qed.

(* the script-data state machine: "<!--<script>" enters the double-escaped state, where "</script>" does not
   end the element; the second "</script>" (back in the escaped state) does *)
Example ex_script_double_escaped :
  spans (b "<script><!--<script></script></script>z"%string)
  = Ok ([(3, 0, 8); (2, 8, 29); (4, 29, 38); (2, 38, 39)], (39, 39))%N.
Proof. vm_compute. reflexivity. Qed.

(* raw text of <title>: text() replaces NUL by U+FFFD *)
Example ex_title_nul :
  match tokens_of (b "<title>"%string ++ [0%N] ++ b "</title>"%string) with
  | Ok ([_; t; _], _) => Some (o_kind t, o_text t)
  | _ => None
  end = Some (2%N, TS [239; 191; 189]%N).
Proof. vm_compute. reflexivity. Qed.

Example utf8_examples :
  map utf8_valid
    [ [195; 169]; [192; 128]; [224; 159; 191]; [224; 160; 128]; [237; 159; 191]; [237; 160; 128];
      [240; 143; 191; 191]; [240; 144; 128; 128]; [244; 143; 191; 191]; [244; 144; 128; 128]; [226; 130];
      [128]; [97; 0; 127] ]%N
  = [true; false; false; true; true; false; false; true; true; false; false; false; true].
Proof. vm_compute. reflexivity. Qed.

(* a case in the shape the harness prints, with both verdict bits clear *)
Example ex_case :
  verdict16 (mk16 [] [] [60;97;62;120]%N
               [T 3 0 3 [60;97;62] TN (NS [97] false) [AN]; T 2 3 4 [120] (TS [120]) NN [AN]]%N
               (F 0 4 4 [] [])%N) = 0%N.
Proof. vm_compute. reflexivity. Qed.

(* ======================================================================================== statements *)
(* the bytes b[i, j) *)
Definition bytes_between (b : str) (i j : nat) : str := firstn (j - i) (skipn i b).

(* toks is a chain of contiguous spans over b from pos to last: token k reports the span [p_k, p_k+1) with
   p_0 = pos, its raw bytes are exactly b[p_k, p_k+1), every span lies inside b *)
Fixpoint spans_chain (b : str) (pos : nat) (toks : list tok_obs) (last : nat) : Prop :=
  match toks with
  | [] => pos = last
  | t :: r => exists e, pos <= e /\ e <= length b /\ o_rs t = N.of_nat pos /\ o_re t = N.of_nat e
                        /\ o_raw t = bytes_between b pos e /\ spans_chain b e r last
  end.

(* T1 (conditional form): whenever the driver returns normally - for every lowercase oracle, context tag, fuel and
   input - the raw bytes of the tokens in order, followed by the remainder (raw() of the ErrorToken ++ buffered()),
   are the input; the spans are contiguous from 0, inside the input, and the ErrorToken's span and buffered()
   are the last two pieces. *)
Theorem C16_lossless :
  forall (lower : str -> str) (ctx : str) (fuel : nat) (b : str) (toks : list tok_obs) (fin : final_obs),
    tokenize_all lower ctx fuel b = Ok (toks, fin) ->
    concat (map o_raw toks) ++ f_err_raw fin ++ f_rest fin = b
    /\ exists p q, spans_chain b 0 toks p /\ p <= q /\ q <= length b
         /\ f_ers fin = N.of_nat p /\ f_ere fin = N.of_nat q
         /\ f_err_raw fin = bytes_between b p q /\ f_rest fin = skipn q b.
Proof. exact lossless. Qed.

(* T5: a call of next that finished without observing EOF (err = false; and without a failed check or fuel
   exhaustion) returns the same token and leaves the same state when more input is appended.  The accessors
   raw / text / tag_name / tag_attr are stable in the same sense (stable_raw, stable_text, stable_tag_name,
   stable_tag_attr in RIO.HtmlTokProofs); buffered() is not, by nature. *)
Theorem C16_stable :
  forall (lower : str -> str) (d1 d2 : list N) (s : st),
    err (snd (next lower d1 s)) = false ->
    oof (snd (next lower d1 s)) = false ->
    panic (snd (next lower d1 s)) = None ->
    next lower (d1 ++ d2) s = next lower d1 s.
Proof. exact next_stable. Qed.

(* T2: totality.  The only hypothesis on the lowercase oracle (the model's stand-in for String::to_lowercase) is
   that on the ten raw-text element names it is ASCII lowercasing (true of to_lowercase: those strings are ASCII).
   With fuel length b + 1 for the driver loop (the model's internal loops take their fuel from the input length:
   length b + 2 per loop, 3 * length b + 10 for the script-data state machine) the run is never Panic (none of
   the 56 checked sites fails) and never OutOfFuel. *)
Definition lower_is_ascii_on_raw_names (lower : str -> str) : Prop :=
  forall t, In (map ascii_lower t) raw_text_elements -> lower t = map ascii_lower t.

Theorem C16_total :
  forall (lower : str -> str) (ctx : str) (fuel : nat) (b : str),
    lower_is_ascii_on_raw_names lower -> length b + 1 <= fuel ->
    exists r, tokenize_all lower ctx fuel b = Ok r.
Proof. exact total. Qed.

(* per call of next, for every state satisfying the invariant wf0 (raw_end inside the input, no panic / fuel flag,
   attribute spans inside the input, raw_tag empty or one of the ten names): the invariant wf is re-established,
   the token starts where the previous one ended, the data span is inside the input, the token field is the
   returned token, and every token other than the ErrorToken is non-empty *)
Theorem C16_next_total :
  forall (lower : str -> str) (inp : list N) (s : st) (r : result token_type) (s' : st),
    lower_is_ascii_on_raw_names lower -> wf0 inp s -> next lower inp s = (r, s') ->
    wf inp s' /\ raw_start s' = raw_end s
    /\ data_start s' <= data_end s' /\ data_end s' <= length inp
    /\ (forall tk, r = ROk tk -> token s' = tk)
    /\ (forall tk, r = ROk tk -> tk <> ErrorToken -> raw_end s < raw_end s').
Proof. exact next_spec. Qed.

(* T3: at most one token per input byte (the final ErrorToken is not in the list: at most length b + 1 calls of next
   return a token) *)
Theorem C16_count :
  forall (lower : str -> str) (ctx : str) (fuel : nat) (b : str) (toks : list tok_obs) (fin : final_obs),
    lower_is_ascii_on_raw_names lower ->
    tokenize_all lower ctx fuel b = Ok (toks, fin) -> length toks <= length b.
Proof. exact count. Qed.

(* T4, key lemma: cutting valid UTF-8 at two positions that are adjacent to an ASCII byte (or are an end of the
   string) leaves a valid piece *)
Definition adjacent_to_ascii (b : list N) (p : nat) : Prop :=
  p = 0 \/ length b <= p
  \/ (exists c, nth_error b p = Some c /\ (c < 128)%N)
  \/ (exists c, nth_error b (p - 1) = Some c /\ (c < 128)%N /\ 1 <= p).

Theorem C16_utf8_cut :
  forall (b : list N) (p q : nat),
    utf8_valid b = true -> adjacent_to_ascii b p -> adjacent_to_ascii b q -> p <= q ->
    utf8_valid (bytes_between b p q) = true.
Proof. exact utf8_valid_sub. Qed.

(* T4: when the input is valid UTF-8 and the driver returns normally, no accessor failed: for every token the raw
   bytes are valid UTF-8 (raw_as_string), text() and tag_name() are not Err, no tag_attr() call is Err; and next()
   never returned Err (end code 1).  Every span end the tokenizer produces (token boundaries, data span, attribute
   key and value spans) is adjacent to an ASCII byte or is an end of the input: next_bnd in RIO.HtmlTokProofs. *)
Definition accessors_ok (t : tok_obs) : Prop :=
  utf8_valid (o_raw t) = true /\ o_text t <> RErr /\ o_name t <> RErr /\ Forall (fun a => a <> RErr) (o_attrs t).

Theorem C16_accessors :
  forall (lower : str -> str) (ctx : str) (fuel : nat) (b : str) (toks : list tok_obs) (fin : final_obs),
    lower_is_ascii_on_raw_names lower -> utf8_valid b = true ->
    tokenize_all lower ctx fuel b = Ok (toks, fin) ->
    Forall accessors_ok toks /\ f_end fin <> 1%N.
Proof. exact accessors. Qed.


(* ---- TIE TO THE SOURCE (translator): the three places where src/html/mod.rs names the raw-text elements are lifted on
   every run: the context list of Tokenizer::new_fragment, the per-letter dispatch of read_start_tag and the
   text_is_raw exclusions of next(); they are the tables the model uses. *)
Theorem C16_tables_fragment_raw_text : forall name : str, mem_str name ext_fragment_raw_text = mem_str name raw_text_elements.
Proof. apply same_names_mem. vm_compute. reflexivity. Qed.

Theorem C16_tables_start_tag_raw_text : ext_start_tag_raw_text = model_start_tag_raw_text /\ ext_text_not_raw = model_text_not_raw.
Proof. split; vm_compute; reflexivity. Qed.

Print Assumptions C16_lossless.
Print Assumptions C16_stable.
Print Assumptions C16_total.
Print Assumptions C16_next_total.
Print Assumptions C16_count.
Print Assumptions C16_utf8_cut.
Print Assumptions C16_accessors.
Print Assumptions C16_tables_fragment_raw_text.
Print Assumptions C16_tables_start_tag_raw_text.
