(* C16 — the HTML tokenizer (src/html/mod.rs) is lossless and total.
   For now this file only pins executable sanity checks of the model (RIO.HtmlTok through RIO.C16Run);
   the statements C16_total / C16_lossless / C16_count / C16_accessors / C16_stable come later. *)
Require Import Coq.Strings.String Coq.Strings.Ascii.
Require Import RIO.Base RIO.TokMonad RIO.HtmlTok RIO.C16Run.

Definition b (s : String.string) : list N := map N_of_ascii (list_ascii_of_string s).

(* the byte-string literals of HtmlTok.v are the literals of the source *)
Example literals_ok :
  [s_iframe; s_noembed; s_noframes; s_noscript; s_plaintext; s_script; s_SCRIPT; s_style; s_title; s_textarea;
   s_xmp; s_DOCTYPE; s_CDATA]
  = map b ["iframe"; "noembed"; "noframes"; "noscript"; "plaintext"; "script"; "SCRIPT"; "style"; "title"; "textarea";
           "xmp"; "DOCTYPE"; "[CDATA["]%string.
Proof. vm_compute. reflexivity. Qed.

Example bytes_ok :
  [LT; GT; SLASH; BANG; QMARK; DASH; EQUALS; DQUOTE; SQUOTE; RBRACKET] = b "<>/!?-=""']"%string.
Proof. vm_compute. reflexivity. Qed.

(* (kind, raw start, raw end) of every token, then the raw span of the ErrorToken *)
Definition spans (input : str) : outcome (list (N * N * N) * (N * N)) :=
  match tokens_of input with
  | Ok (toks, fin) => Ok (map (fun t => (o_kind t, o_rs t, o_re t)) toks, (f_ers fin, f_ere fin))
  | Panic s => Panic s
  | OutOfFuel => OutOfFuel
  end.

(* kinds: 2 Text, 3 StartTag, 4 EndTag, 5 SelfClosingTag, 6 Comment, 7 Doctype *)
Example ex_mixed :
  spans (b "<a b=""c"">x</a><!--y--><script>1<2</script>"%string)
  = Ok ([(3, 0, 9); (2, 9, 10); (4, 10, 14); (6, 14, 22); (3, 22, 30); (2, 30, 33); (4, 33, 42)], (42, 42))%N.
Proof. vm_compute. reflexivity. Qed.

Example ex_mixed_first_token :
  match tokens_of (b "<a b=""c"">x</a><!--y--><script>1<2</script>"%string) with
  | Ok (t :: _, _) => Some (o_name t, o_attrs t)
  | _ => None
  end = Some (NS (b "a"%string) true, [AS (b "b"%string) (b "c"%string) false; AN]).
Proof. vm_compute. reflexivity. Qed.

Example ex_doctype_selfclosing_cdata :
  spans (b "<!DOCTYPE html><br/><![CDATA[x]]]>y"%string)
  = Ok ([(7, 0, 15); (5, 15, 20); (2, 20, 34); (2, 34, 35)], (35, 35))%N.
Proof. vm_compute. reflexivity. Qed.

(* EOF inside a tag: no token, the ErrorToken carries the bytes in its raw span *)
Example ex_eof_in_tag : spans (b "x<a b"%string) = Ok ([(2, 0, 1)], (1, 5))%N.
Proof. vm_compute. reflexivity. Qed.

(* the script-data state machine: "<!--<script>" enters the double-escaped state, where "</script>" does not
   end the element; the second "</script>" (back in the escaped state) does *)
Example ex_script_double_escaped :
  spans (b "<script><!--<script></script></script>z"%string)
  = Ok ([(3, 0, 8); (2, 8, 29); (4, 29, 38); (2, 38, 39)], (39, 39))%N.
Proof. vm_compute. reflexivity. Qed.

(* raw text of <title>: text() replaces NUL by U+FFFD *)
Example ex_title_nul :
  match tokens_of (b "<title>"%string ++ [0%N] ++ b "</title>"%string) with
  | Ok ([_; t; _], _) => Some (o_kind t, o_text t)
  | _ => None
  end = Some (2%N, TS [239; 191; 189]%N).
Proof. vm_compute. reflexivity. Qed.

Example utf8_examples :
  map utf8_valid
    [ [195; 169]; [192; 128]; [224; 159; 191]; [224; 160; 128]; [237; 159; 191]; [237; 160; 128];
      [240; 143; 191; 191]; [240; 144; 128; 128]; [244; 143; 191; 191]; [244; 144; 128; 128]; [226; 130];
      [128]; [97; 0; 127] ]%N
  = [true; false; false; true; true; false; false; true; true; false; false; false; true].
Proof. vm_compute. reflexivity. Qed.

(* a case in the shape the harness prints, with both verdict bits clear *)
Example ex_case :
  verdict16 (mk16 [] [] [60;97;62;120]%N
               [T 3 0 3 [60;97;62] TN (NS [97] false) [AN]; T 2 3 4 [120] (TS [120]) NN [AN]]%N
               (F 0 4 4 [] [])%N) = 0%N.
Proof. vm_compute. reflexivity. Qed.
